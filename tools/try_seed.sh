#!/bin/sh
# usage: tools/try_seed.sh <seed-dir-name> <check-id> [<check-id> ...]
# Applies /verif/seeded/<name>/patch.diff to /repo, runs the given checks (quick tier), prints exit codes, and restores /repo.
set -u
S="$1"; shift
P="/verif/seeded/$S/patch.diff"
[ -f "$P" ] || { echo "no patch $P"; exit 2; }
cd /repo || exit 2
if [ -n "$(git status --porcelain --untracked-files=no)" ]; then echo "/repo is dirty; refusing"; exit 2; fi
git apply "$P" || { echo "patch does not apply"; exit 2; }
trap 'git -C /repo checkout -- . ' EXIT INT TERM
cd /verif
for c in "$@"; do
  out=$(./check "$c" --tier "${TIER:-quick}" 2>&1); rc=$?
  echo "== seed=$S check=$c exit=$rc"
  echo "$out" | grep -E "^VIOLATION|^  signature|HARNESS-ERROR|^$c \[" | head -8 | cut -c1-300
done
