#!/bin/sh
# usage: tools/try_seed_wt.sh <seed-dir-name> <check-id> [...]  -- like try_seed.sh but on a scratch worktree of /repo (VERIF_REPO), leaving /repo untouched
# (development aid for when /repo is in use by a long run; the confirmation of record uses try_seed.sh on /repo itself)
set -u
S="$1"; shift
P="/verif/seeded/$S/patch.diff"
W=/tmp/seedrepo-$$
git -C /repo worktree add -q "$W" HEAD || exit 2
trap 'git -C /repo worktree remove --force "$W"' EXIT INT TERM
( cd "$W" && git apply "$P" ) || { echo "patch does not apply"; exit 2; }
cd /verif
for c in "$@"; do
  out=$(VERIF_REPO="$W" ./check "$c" --tier "${TIER:-quick}" 2>&1); rc=$?
  echo "== seed=$S check=$c exit=$rc (scratch worktree)"
  echo "$out" | grep -E "^VIOLATION|^  signature|HARNESS-ERROR|^$c \[" | head -8 | cut -c1-300
done
