#!/bin/sh
# usage: tools/run_all.sh [quick|thorough] [ids...]   -- runs the checks one after the other and prints one summary line each
T="${1:-quick}"; shift 2>/dev/null
IDS="${*:-C01 C02 C03 C04 C05 C06 C07 C08 C09 C10 C11 C12 C13 C14 C15 C16 C17 C18 C19}"
cd "$(dirname "$0")/.." || exit 2     # the checkout this script belongs to (so a `vp run` snapshot runs itself, not the working tree)
for c in $IDS; do
  s=$(date +%s); out=$(./check "$c" --tier "$T" 2>&1); rc=$?; e=$(date +%s)
  echo "$c exit=$rc wall=$((e-s))s :: $(echo "$out" | tail -1 | cut -c1-200)"
  echo "$out" | grep -E "^VIOLATION|^HARNESS-ERROR|^INCONCLUSIVE" | cut -c1-220 | head -5
done
