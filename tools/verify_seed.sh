#!/bin/sh
# usage: tools/verify_seed.sh <dir with patch.diff and demo.py>
# Confirms in a fresh scratch worktree of /repo: the patch applies, the pinned test suite still passes, the demo fails with the patch and passes without it.
set -u
D="$1"
W=$(mktemp -d /tmp/verify-seed-XXXXXX)
git -C /repo worktree add -q "$W/wt" HEAD || exit 2
trap 'git -C /repo worktree remove --force "$W/wt"; rm -rf "$W"' EXIT INT TERM
cd "$W/wt" || exit 2
sed "s#/tmp/wt[2345]\?/C[0-9][0-9]#$W/wt#g; s#/tmp/seedout[2345]\?/C[0-9][0-9]\(/[AB]\)\?#$D#g" "$D/demo.py" > "$W/demo.py"
/venv/bin/python "$W/demo.py" >/dev/null 2>&1; echo "demo without patch: exit=$?"
git apply "$D/patch.diff" || { echo "patch does not apply"; exit 2; }
/venv/bin/python -m pytest -q -p no:cacheprovider 2>&1 | tail -1
/venv/bin/python "$W/demo.py" > "$W/out.txt" 2>&1; rc=$?; tail -3 "$W/out.txt"; echo "demo with patch: exit=$rc"
