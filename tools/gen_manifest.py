#!/usr/bin/env python3
"""Regenerates /verif/MANIFEST.json from the table below (kept in one place so the manifest stays valid)."""
import json, os
ROOT = os.path.dirname(os.path.dirname(os.path.abspath(__file__)))
ALL = [f"C{i:02d}" for i in range(1, 20)]
NOTE = ("Trusted base: CPython 3.12, CrossHair 0.0.110's models of int/str/list/dict/set/bytes, z3 5.1.0 (cvc5 1.4.0 cross-check where stated), "
        "Pygments/pathspec/rich/typer as documented; stubs and assumptions are listed in the evidence file of each run.")
CLAIMED = {
 "C02": dict(cat="other", technique="CrossHair symbolic execution of the real threshold code (L unbounded solver variable) + z3",
             text="Bounded symbolic execution: all six threshold views and check_command are executed with the length(s) as solver variables; within the bound (k<=3 lengths, 2 files) the verdict holds for every integer L>=1, which covers every boundary neighbour; counterexamples are replayed concretely.",
             ref="DESIGN.md 3/C02"),
 "C13": dict(cat="other", technique="CrossHair on the real match/nfa_match/starts_with vs. derivative reference; z3 string/regex query on the DFA built by the real construction",
             text="Bounded: every pattern tree up to the operator bound x every sequence up to the length bound is decided by the solver (E1 real stepping code, short sequences; E2 real automaton, sequences up to 12 in one query per pattern); construction terminates for every tree given by a symbolic prefix code; matching after an earlier match in the same process gives the same answer.",
             ref="DESIGN.md 3/C13"),
 "C14": dict(cat="other", technique="CrossHair on the real find_all vs. derivative-based greedy reference (all clauses of the statement), replay on the unstubbed function",
             text="Bounded: all non-nullable pattern trees up to the operator bound x all sequences up to the length bound; the solver ranges over pattern index, length and letters. One known finding (inner attempt shadows outer) is listed and assumed away so the rest of each condition's space is still explored. Built-in header shapes vs a structural reference, and searches after an earlier search in the same process.",
             ref="DESIGN.md 3/C14"),
 "C15": dict(cat="model_checking", technique="symbolic fixpoint of reachable (DFA state, depth class) configurations + one-step ambiguity query, both by CrossHair on the real Pattern.consume/predicates; replay as source text",
             text="Complete exploration of a finite abstract space with the concrete dimensions (token text, nesting depth) left to the solver: every reachable configuration of every captured automaton x every token kind, with unbounded token value and depth. Not bounded in depth or token text; bounded only by Pygments' type families.",
             ref="DESIGN.md 3/C15"),
 "C19": dict(cat="other", technique="AST->QF_BVFP translation of quality_profile_percentage solved by z3 and cvc5 (exact, bounded totals) + real/int relaxation (unbounded totals) + CrossHair on the verdict branches (symbolic figures) and on print_report over real Report objects (with comparison report, repeated requests)",
             text="Each clause of the statement is an unsat query over ALL profiles with total <= 2^B (B=6 quick, 10 thorough) against the bit-precise float semantics of the function's current AST, cross-checked by two solvers and by concrete evaluation on the repository's test inputs; the verdict rule is decided for all integer percentage tuples.",
             ref="DESIGN.md 3/C19"),
 "C18": dict(cat="other", technique="CrossHair on the real delta/table/Markdown/findings code with figures as unbounded solver variables behind opaque format markers; replay with plain ints through a real rich Console",
             text="Bounded in shape (two languages, one figure column symbolic per query, five language-set scenarios, 0..25 findings), unbounded in every figure: shown value == stored value and annotation <=> current != previous with the exact difference, identically in text and Markdown.",
             ref="DESIGN.md 3/C18"),
 "C16": dict(cat="other", technique="CrossHair on the real lex() over a contract-stub lexer with symbolic offsets, lengths, kinds and newline offsets; unit contracts on symbolic strings; lexing the same text repeatedly (purity)",
             text="Bounded in the number of tokens/newlines per query (3/3), unbounded in every offset and length; the oracle is the definition of line/column from newline offsets. What Pygments emits for a text is assumed to follow its documented contract (zero-length tokens included).",
             ref="DESIGN.md 3/C16"),
 "C17": dict(cat="other", technique="CrossHair on the real filter_nocl_comment_tokens with the comment text assembled from solver-chosen parts; skeleton differential through scan_file with the marker at a symbolic line",
             text="Bounded-exhaustive through the solver over the stated pools (leader, gaps up to 40 blanks, every letter case, tails; all short bodies over a small alphabet); line numbers unbounded; programs with body-less headers and behind a byte-order mark.",
             ref="DESIGN.md 3/C17"),
 "C01": dict(cat="other", technique="CrossHair on the real scan_file over layout-symbolic skeletons (real-lexer tokens; line gaps and indentation columns unbounded solver variables) vs. generator ground truth; replay as re-rendered text",
             text="For each generated canonical program the solver decides name/order/span/length for EVERY layout (all blank-line counts at up to 10 boundaries at once, all indentation widths). The program family itself is enumerated up to a size bound (the bound), two classes of genuine defects are listed as known findings.",
             ref="DESIGN.md 3/C01"),
 "C04": dict(cat="other", technique="CrossHair on the real scan_file, canonical vs. transformed token stream (symbolic insertion counts, inserted comment/whitespace tokens), real-lexer tokens of commented source text, and a vendored corpus of 24 real-world files with lexer-validated insertion points",
             text="Metamorphic, solver-quantified over all insertion counts simultaneously; comment placement patterns are fixed families (everywhere / column-1 / mixed styles) and the source-text variants are lexed by the real lexer so lexer artefacts (zero-length tokens) are in scope; corpus files carry symbolic gaps at <= 10 token-safe boundaries per condition.",
             ref="DESIGN.md 3/C04"),
 "C03": dict(cat="other", technique="CrossHair: token-soup BMC of the real scan_file, solver-chosen single-edit mutants of canonical programs, check_file/_read_file on symbolic bytes, check_command over an in-memory FS; z3 reachability on the real header DFAs",
             text="Compositional and bounded: every token sequence of length N over the language's predicate-induced alphabet with every layout; every single-edit mutant (any position, any replacement class) of several canonical programs; every byte string <= 3; a pool of working directories x ways of naming. Ambiguity errors are excluded by C15 (all depths, all tokens).",
             ref="DESIGN.md 3/C03"),
 "C05": dict(cat="other", technique="CrossHair: pairing units over symbolic integer ranges (unbounded endpoints), framed token soups and solver-chosen mutants through the real scan_file with every C05 clause asserted, _analyze_file with symbolic measurement list",
             text="Unit layer is unbounded in all range endpoints (<= 2 headers, <= 3 blocks, every ordering/nesting); the end-to-end layers are bounded (2-3 symbolic tokens inside a function frame, single edits of canonical programs).",
             ref="DESIGN.md 3/C05"),
 "C07": dict(cat="other", technique="CrossHair on the real Codebase/LanguageTotals/ScanTotals/SourceFileEntry with measurement values and insertion order as solver variables, oracle computed from the path strings",
             text="Bounded in shape (sets of <= 4 paths of depth <= 3 from a pool; seeded sample in quick, all in thorough), unbounded in the symbolic measurement values; every identity of the statement is asserted after aggregate().",
             ref="DESIGN.md 3/C07"),
 "C08": dict(cat="other", technique="solver-driven exhaustive selection of hostile strings (pool^<=N, one field at a time) through the real ReportWriter (pretty+compact), json.loads, ReportReader and a second writer pass; document value oracle independent of the writer",
             text="Bounded-exhaustive through the solver: every string up to N characters over a 19-character pool in each of 12 string fields for several report shapes. Symbolic strings through the json module were probed and are not decidable with CrossHair (stated in DESIGN.md); integers are concrete sentinels.",
             ref="DESIGN.md 3/C08"),
 "C09": dict(cat="other", technique="one inductive step of the real scan_command over an in-memory FS from a solver-chosen arbitrary (tree, cache) state; analysis = uninterpreted function with call recorder",
             text="Complete over the abstract state space of the pool (every tree x every cache x version), and by the state invariant it composes to edit histories of any length; bounded by the pool (2-3 paths, 2-3 contents). The discrete state is selected by the solver; the step runs concretely because the writer formats integers. Altered and version-less caches must not be reused; the real calculate_checksum is the md5 of the whole file (sizes around block boundaries).",
             ref="DESIGN.md 3/C09"),
 "C10": dict(cat="fault_enumeration", technique="solver-driven enumeration of crash points / structural faults of the cache document through the real scan_command over the in-memory FS, with a follow-up scan on the state left behind",
             text="Every character offset of the cache documents of three report shapes (pretty and compact), a set of non-JSON texts, every JSON path deleted or retyped, and all cache-directory states; quick skips alternate offset windows of the largest document, thorough is exhaustive.",
             ref="DESIGN.md 3/C10"),
 "C11": dict(cat="other", technique="z3 regex equivalence (unbounded path strings) between every regex compiled by the real generate_exclude_spec and a reference regex of its gitignore class; real scan_path over an in-memory FS for solver-chosen trees x configurations x root forms",
             text="Exclusion semantics are decided for paths of any length by the solver; composition (hidden pruning, relative keys, language choice, no analysis of non-qualifying files) is decided for every member of a pool-based tree family (14x14x13 + top-level variants) under 6 exclusion configurations and 6 ways of naming the root; the real CLI option handling combines the exclusion sources in their written order.",
             ref="DESIGN.md 3/C11"),
 "C12": dict(cat="other", technique="real check_command vs real scan_path over one in-memory tree for solver-chosen members x 6 ways of reaching the file x exclusion configurations; decoding agreement on symbolic bytes (CrossHair)",
             text="Bounded by the tree pool; for every member the listing, the skip rules and the exit status of check are compared with what scan stores for the same file. One known finding (directory argument under a dot-directory) is listed and assumed away. The real lexers and analysis run on both sides for 11 sample files (markers, Latin-1, BOM, coding cookie, ambiguous extension, markup-like name).",
             ref="DESIGN.md 3/C12"),
 "C06": dict(cat="other", technique="CrossHair: scan B / scan symbolic soup A / scan B isolation harness; permutation-invariance of one real Pattern.consume step over every automaton state (models hash-seed set order); permutation of Codebase insertions; sibling-order variation of scan_path over the in-memory FS",
             text="Bounded soups (N tokens) as the intervening file, every permutation of <= 4 transitions with unbounded token text and depth, all 6 insertion orders with unbounded values, reversed/rotated directory orders over the C11 tree family. Hash seeds and OS directory order enter only through their modelled effect (stated).",
             ref="DESIGN.md 3/C06"),
}
NA = {}
def main():
    checks = []
    for pid in ALL:
        if pid not in CLAIMED:
            continue
        c = CLAIMED[pid]
        checks.append({
            "property_id": pid,
            "quick_cmd": f"./check {pid} --tier quick",
            "thorough_cmd": f"./check {pid} --tier thorough",
            "evidence_file": f"/verif/evidence/{pid}.json",
            "replay_cmd_template": f"./check {pid} --replay {{path}}",
            "engine": "solver",
            "level_claimed": {"category": c["cat"], "text": c["text"], "design_ref": c["ref"]},
            "level_note": c.get("note", NOTE),
            "technique": c["technique"],
        })
    na = [{"property_id": p, "reason": NA.get(p, "check not built yet in this revision (work in progress; see DESIGN.md for the planned solver-based check)")} for p in ALL if p not in CLAIMED]
    m = {
        "version": 1,
        "setup_cmd": "./setup.sh",
        "hooks": {"guard": "CODELIMIT_VERIF", "enable": "no hooks in /repo: all instrumentation is done by rebinding names in module namespaces from the harness; checks import /repo's working tree directly",
                  "baseline_off_cmd": "cd /repo && /venv/bin/python -m pytest -ra -q -p no:cacheprovider --timeout=900 --continue-on-collection-errors", "source_commits": [], "add_only": True},
        "engines": [{"name": "solver", "path": "/verif/vlib", "serves_properties": [c["property_id"] for c in checks],
                     "kind_free_text": "CrossHair 0.0.110 (symbolic execution of the real Python functions, z3 back end) driven per condition in parallel subprocesses + direct z3/cvc5 queries regenerated from /repo's source on every run"}],
        "checks": checks,
        "not_applicable": na,
        "notes": "Exit codes of ./check: 0 = held on everything explored (known findings printed as KNOWN-FINDING), 1 = VIOLATION (reproduced, not listed in known_findings.json), 3 = harness/machinery error (never a violation).",
    }
    with open(os.path.join(ROOT, "MANIFEST.json"), "w") as f:
        json.dump(m, f, indent=1)
    import jsonschema
    jsonschema.validate(m, json.load(open("/root/.vp/MANIFEST.schema.json")))
    for c in checks:
        p = c["evidence_file"]
        if os.path.exists(p):
            jsonschema.validate(json.load(open(p)), json.load(open("/root/.vp/EVIDENCE.schema.json")))
    print("manifest ok:", len(checks), "claimed,", len(na), "n/a")
main()
