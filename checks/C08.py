from vlib.xh import Job

LEVEL = "other"
EXPLANATION = ("For each report shape and each string-valued field, CrossHair selects (by symbolic indices) a string of up to N characters from a pool of JSON-hostile characters; the real ReportWriter "
               "(pretty and compact), json.loads, ReportReader.from_json / get_report_version and a second ReportWriter pass then run on that report, and every clause of the statement is compared with a "
               "document value computed independently of the writer. The solver enumerates the pool exhaustively; str/regex internals of the json module are not symbolically decidable (probed: 'Not confirmed' at |s|<=2).")

FIELDS = ["version", "uuid", "timestamp", "root", "owner", "name", "branch", "path", "folder", "language", "checksum", "unit_name"]


def run(ctx):
    ctx.functions += ["ReportWriter.to_json (all _*_to_json helpers)", "ReportReader.from_json", "ReportReader.get_report_version", "Report.__init__", "Codebase.add_file/aggregate (via the reader)"]
    maxn = 2 if ctx.quick() else 3
    shapes = [{"files": 2, "ms": 2, "repo": True, "version": True}, {"files": 1, "ms": 1, "repo": False, "version": True}, {"files": 2, "ms": 2, "repo": False, "version": True, "same_checksum": True}]
    if not ctx.quick():
        shapes += [{"files": 0, "ms": 0, "repo": False, "version": False}, {"files": 2, "ms": 0, "repo": True, "version": False}, {"files": 1, "ms": 2, "repo": True, "version": True}]
    else:
        shapes += [{"files": 2, "ms": 1, "repo": False, "version": False}]
    ctx.bounds = {"strings": f"every string of length <= {maxn} over a pool of 19 characters (quote, backslash, NUL, control, DEL, non-ASCII, line separator, astral, lone surrogate, JSON punctuation, slash, tab, space) in one field at a time",
                  "fields": FIELDS, "shapes": shapes, "ints": "sentinel ints of 1, 4 and 7 digits and 0 in line/column fields; digit rendering trusted"}
    ctx.assumptions += ["json.loads of the standard library is a correct JSON parser (it is the validity oracle)", "S-time/uuid: uuid4()/datetime.now() replaced by constants", "A-json is not needed: whole documents are parsed"]
    ctx.outside += ["strings outside the pool or longer than the bound", "two hostile fields at once", "path components containing '/' or empty components (a scan cannot produce them)"]
    T = 200 if ctx.quick() else 600
    jobs = []
    for si, sh in enumerate(shapes):
        for f in FIELDS:
            if f in ("owner", "name", "branch") and not sh["repo"]:
                continue
            if f in ("path", "folder", "language", "checksum") and sh["files"] == 0:
                continue
            if f == "unit_name" and (sh["files"] == 0 or sh["ms"] == 0):
                continue
            if f == "version" and not sh["version"]:
                continue
            jobs.append(Job("c08.py", "h_field", {"shape": sh, "field": f, "maxn": maxn}, T, 30, tag=f"shape{si}/{f}", meta={"twin": si == 0 and f in ("root", "path"), "sigtag": "report"}))
    ctx.run_xh(jobs)
