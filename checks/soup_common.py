"""Token-soup jobs shared by C03 (totality) and C05 (well-formedness)."""
from vlib import capture, xh
from vlib.xh import Job


FRAMES = {"py": (["def", "x", "(", ")", ":"], []), "brace": (["x", "(", ")", "{"], ["}"]), "js": (["function", "x", "(", ")", "{"], ["}"])}


def soup_jobs(ctx, mode, plan, framed=False, tolerate=()):
    """plan: {lang: N}. One condition per (language, class of the first token). framed: the symbolic tokens form the body of a fixed one-function frame."""
    jobs = []
    sizes = {}
    for lang, n in plan.items():
        r = xh.call("soup.py", "_alphabet", {"lang": lang}, wall_timeout=120)
        if "value" not in r:
            ctx.harness_error(f"alphabet:{lang}", str(r)[:500])
            continue
        alpha = [w for _t, w in r["value"]]
        sizes[lang] = (n, alpha)
        T = (240 if ctx.quick() else 600)
        for k in range(len(alpha)):
            frame = None
            if framed:
                frame = FRAMES["py" if lang == "Python" else "js" if lang in ("JavaScript", "TypeScript") else "brace"]
            jobs.append(Job("soup.py", "h_total", {"lang": lang, "N": n, "first": k, "mode": mode, "frame": frame, "tolerate": list(tolerate)}, T, 30, tag=f"{lang}/N={n}/first={alpha[k]!r}/{mode}" + ("/framed" if framed else ""),
                            meta={"twin": alpha[k] in ("x", "def", "function"), "sigtag": f"soup:{lang}", "tolerant": True}))
    ctx.bounds["token soups" + (" inside a function frame" if framed else "")] = {lang: f"every sequence of {n} tokens over {alpha} with every valid layout (line steps >= 0, columns >= 1, spacing >= 0: unbounded)" for lang, (n, alpha) in sizes.items()}
    return jobs


MUT_LABELS = ["two", "stmt-mix", "params-multiline", "nested-middle", "nested-two", "class-methods", "one-arrow", "anon", "nested-3-levels", "x-arrow-then-fn", "x-arrow-encloses-fn"]
MUT_OPS = ["none", "prefix", "suffix", "delete", "dup", "swap", "replace"]


def mutation_jobs(ctx, labels=None, tolerate=()):
    """Every single-edit mutant (edit position and replacement class chosen by the solver) of a few canonical programs per language."""
    from vlib import skel
    jobs = []
    n = 0
    T = 240 if ctx.quick() else 600
    for lang in skel.LANGS:
        have = dict(skel.programs(lang, "quick"))
        have.update({k: v for k, v in skel.extra_programs(lang).items() if k in ("x-arrow-then-fn", "x-arrow-encloses-fn")})
        for label in (labels or (MUT_LABELS[:5] if ctx.quick() else MUT_LABELS)):
            if label not in have:
                continue
            n += 1
            for op in MUT_OPS:
                jobs.append(Job("mut.py", "h_mut", {"lang": lang, "label": label, "op": op, "tolerate": list(tolerate)}, T, 60, tag=f"{lang}/{label}/{op}", meta={"twin": op == "replace" and label == "two", "sigtag": f"mut:{lang}:{op}", "tolerant": True}))
    ctx.bounds["mutated programs"] = f"{n} canonical programs x {{truncate to any prefix, drop any prefix, delete / duplicate any token, swap any adjacent pair, replace any token by any alphabet member}} (position and class chosen by the solver; concrete once chosen)"
    return jobs
