from vlib import pat
from vlib.xh import Job

LEVEL = "other"
EXPLANATION = ("CrossHair executes the real find_all with the pattern index, the sequence length and every letter as solver variables; the oracle checks "
               "every clause of the statement (bounds, recorded items, membership, longest-from-start, order/disjointness, coverage of greedy successes) "
               "against an independent derivative-based reference. Counterexamples are replayed on the real find_all without stubs.")


def run(ctx):
    ctx.functions += ["languages.*.extract_headers (header expressions captured)", "token_matching.predicate.* (Balanced, Name, Keyword, Symbol, Operator)", "gsm.matcher.find_all", "gsm.Pattern.consume/is_accepting", "gsm.predicate.Identity.accept", "gsm.Expression.expression_to_nfa/nfa_to_dfa (untraced, concrete)"]
    import random
    if ctx.quick():
        plan = [(2, 3, 10, None), (3, 3, 12, 48)]
    else:
        plan = [(2, 5, 6, None), (3, 3, 16, None)]
    ctx.assumptions += ["S-auto: automaton construction runs for real but untraced", "predicates pairwise disjoint (Identity atoms)"]
    ctx.outside += ["patterns/sequences beyond the listed bounds", "built-in header shapes: sequences longer than the bound; expressions whose structure the reference does not model are reported inconclusive"]
    jobs = []
    seen = set()
    def interplay(t):
        """k=3 trees in which two attempts can be alive at once with different fates: a sequence below/next to an alternative or repetition."""
        s = pat.show(t)
        return t[0] in ("alt", "seq") and (" " in s) and any(c in s for c in "|?*")
    for K, L, B, SLICE in plan:
        trees = [t for t in pat.all_trees(K) if not pat.nullable(t)]
        if SLICE:
            lower = set(pat.all_trees(K - 1))
            cand = [t for t in trees if t not in lower and interplay(t)]
            random.Random(ctx.seed).shuffle(cand)
            trees = cand[:SLICE]
            ctx.bounds[f"k={K} slice"] = f"{len(trees)} of {len(cand)} trees with exactly {K} operators, chosen by VERIF_SEED={ctx.seed}"
        if not SLICE:
            ctx.bounds[f"k<={K}"] = f"{len(trees)} non-nullable trees (up to renaming of letters), sequences of length <= {L} over a,b,c,other"
        T = 200 if ctx.quick() else 600
        for i in range(0, len(trees), B):
            batch = trees[i:i + B]
            jobs.append(Job("c14.py", "h_find_all", {"patterns": batch, "L": L}, T, 30, tag=f"k<={K} L<={L} trees[{i}:{i + len(batch)}] {pat.show(batch[0])}..", meta={"sigtag": "find_all", "tolerant": True}))
    if ctx.quick():
        A, Bb, C = ("atom", 0), ("atom", 1), ("atom", 2)
        core = [("alt", ("seq", A, ("seq", Bb, C)), Bb), ("seq", A, ("opt", ("seq", A, Bb))), ("seq", ("opt", ("seq", A, Bb)), Bb), ("alt", ("seq", A, ("star", Bb)), Bb),
                ("seq", ("plus", A), Bb), ("alt", ("plus", ("seq", A, Bb)), A)]
        jobs.append(Job("c14.py", "h_find_all", {"patterns": core, "L": 4}, 200, 30, tag="fixed core of overlapping-attempt shapes, L<=4", meta={"sigtag": "find_all", "tolerant": True}))
        ctx.bounds["core"] = f"{len(core)} fixed trees with two attempts alive at once, sequences of length <= 4"
    # ---- a search is a function of (pattern, sequence): pairs of patterns of the same shape over different letters, one searched after the other in one process
    A, Bb, C = ("atom", 0), ("atom", 1), ("atom", 2)
    pairs = [("plus", ("alt", A, Bb)), ("plus", ("alt", C, A)), ("alt", A, ("seq", Bb, C)), ("alt", C, ("seq", A, Bb)), ("seq", A, ("opt", Bb)), ("seq", C, ("opt", A)), ("plus", A), ("plus", Bb)]
    for q in range(-1, len(pairs)):
        jobs.append(Job("c14.py", "h_find_all_after", {"patterns": pairs, "L": 3 if ctx.quick() else 4, "fix_q": q, "tolerate": ["find_all:incomplete:inner-match-shadows-outer"]}, 200 if ctx.quick() else 600, 30,
                        tag=f"search after a search for pattern #{q}", meta={"sigtag": "find_all:after", "twin": q == 0}))
    ctx.bounds["search history"] = f"{len(pairs)} patterns (same shapes over different letters) x (no | each of them searched first) x every sequence of length <= 3 (quick) / 4"
    # ---- (b) the built-in header shapes over token sequences
    from vlib import capture, xh
    NB = 3 if ctx.quick() else 4
    for lang in capture.LANG_NAMES:
        npairs = len(capture.capture(lang))
        for pair in range(npairs):
            st = xh.call("c14b.py", "status", {"lang": lang, "pair": pair}, wall_timeout=120).get("value") or {}
            if st.get("unmodelled"):
                ctx.inconclusive_(f"builtin-shape:{lang}:pattern{pair}", "header expression has a structure the reference does not model: " + str(st.get("unmodelled")))
                continue
            alpha = st.get("alphabet", [])
            firsts = [None] if ctx.quick() else list(range(len(alpha)))
            for f in firsts:
                jobs.append(Job("c14b.py", "h_shape", {"lang": lang, "pair": pair, "N": NB, "first": f, "tolerate": ["find_all:incomplete:inner-match-shadows-outer"]}, 300 if ctx.quick() else 600, 40,
                                tag=f"built-in header shape {lang}#{pair} N={NB}" + (f" first={alpha[f]!r}" if f is not None else ""), meta={"sigtag": "find_all:builtin", "twin": f in (None, 0)}))
            # a second balanced group after the first (macro-style / curried headers): fixed prefix `x ( ) (` + symbolic continuation
            if pair == 0 and not st.get("unmodelled"):
                jobs.append(Job("c14b.py", "h_shape", {"lang": lang, "pair": pair, "N": 2 if ctx.quick() else 3, "prefix": ["x", "(", ")", "("], "tolerate": ["find_all:incomplete:inner-match-shadows-outer"]}, 300 if ctx.quick() else 600, 40,
                                tag=f"built-in header shape {lang}#{pair}: x ( ) ( + symbolic tokens", meta={"sigtag": "find_all:builtin", "twin": False}))
    ctx.bounds["built-in header shapes"] = f"every token sequence of length {NB} over each language's predicate-induced alphabet, for every captured header expression (reference: structural interpretation of the captured expression)"
    ctx.run_xh(jobs)
