import time

from vlib import pat
from vlib.xh import Job

LEVEL = "other"
EXPLANATION = ("E1: CrossHair executes the real match / nfa_match / starts_with with the pattern index, the sequence length and every letter as solver "
               "variables and compares with an independent Brzozowski-derivative reference; E2: the DFA built by the real expression_to_nfa + nfa_to_dfa is "
               "unrolled over a z3 string (all sequences up to length 12 at once) and compared with z3's regex membership; construction is run for every "
               "pattern tree encoded by a symbolic prefix code.")


def dfa_tables(t):
    """Run the REAL construction and read the DFA off its State graph."""
    from codelimit.common.gsm.Expression import expression_to_nfa, nfa_to_dfa
    dfa = nfa_to_dfa(expression_to_nfa(pat.to_expression(t)))
    ids, order = {}, []

    def visit(s):
        if id(s) in ids:
            return
        ids[id(s)] = len(order)
        order.append(s)
        for _, tgt in s.transition:
            visit(tgt)
    visit(dfa.start)
    trans = {}
    for s in order:
        for pred, tgt in s.transition:
            key = (ids[id(s)], pred.item)
            trans.setdefault(key, []).append(ids[id(tgt)])
    acc = {ids[id(s)] for s in dfa.accepting if id(s) in ids}
    return len(order), trans, acc


def z3_query(t, LMAX, z3):
    """Returns (verdict, model word or None, seconds). unsat = DFA stepping agrees with regex semantics for every word up to LMAX."""
    n_states, trans, acc = dfa_tables(t)
    if any(len(v) > 1 for v in trans.values()):
        return "nondeterministic-dfa", None, 0.0
    w = z3.String("w")
    n = z3.Length(w)
    s = z3.Solver()
    s.set("timeout", 60000)
    s.add(n <= LMAX)
    R = pat.to_z3(t)
    s.add(z3.InRe(w, z3.Star(z3.Range("a", "d"))))
    DEAD = -1
    st = z3.IntVal(0)
    states = [st]
    for i in range(LMAX):
        c = z3.SubString(w, i, 1)
        nxt = z3.IntVal(DEAD)
        for (src, item), tgts in trans.items():
            nxt = z3.If(z3.And(st == src, c == z3.StringVal("abcd"[item])), z3.IntVal(tgts[0]), nxt)
        st = z3.If(i < n, nxt, st)
        states.append(st)
    is_acc = lambda e: z3.Or([e == a for a in acc]) if acc else z3.BoolVal(False)
    real_match = is_acc(st)
    # starts_with: first i>=1 (within n) whose state is accepting
    k_real = z3.IntVal(0)
    k_ref = z3.IntVal(0)
    for i in range(LMAX, 0, -1):
        k_real = z3.If(z3.And(i <= n, is_acc(states[i])), z3.IntVal(i), k_real)
        k_ref = z3.If(z3.And(i <= n, z3.InRe(z3.SubString(w, 0, i), R)), z3.IntVal(i), k_ref)
    s.add(z3.Or(real_match != z3.InRe(w, R), k_real != k_ref))
    t0 = time.time()
    r = s.check()
    dt = time.time() - t0
    if str(r) == "sat":
        word = s.model().eval(w, model_completion=True).as_string()
        return "sat", word, dt
    return str(r), None, dt


def run(ctx):
    import z3
    from codelimit.common.gsm.matcher import match, starts_with
    ctx.functions += ["gsm.matcher.match", "gsm.matcher.nfa_match", "gsm.matcher.starts_with", "gsm.Pattern.consume/is_accepting",
                      "gsm.Expression.expression_to_nfa", "gsm.Expression.nfa_to_dfa", "gsm.Expression.epsilon_closure/move", "gsm.operator.*.apply", "gsm.predicate.Identity.accept"]
    K = 2 if ctx.quick() else 3
    L1 = 4 if ctx.quick() else 5
    LN = 3 if ctx.quick() else 4
    LMAX = 12
    NODES = 4 if ctx.quick() else 5
    trees = pat.all_trees(K)
    ctx.bounds = {"patterns": f"all syntax trees with <= {K} operators over atoms a,b,c up to renaming of letters ({len(trees)} trees)",
                  "E1 sequence length": f"<= {L1} (match, starts_with), <= {LN} (nfa_match); letters a,b,c,other", "E2 sequence length": f"<= {LMAX}",
                  "construction": f"every pattern tree with <= {NODES} nodes (symbolic prefix code)"}
    ctx.assumptions += ["S-auto: expression_to_nfa/nfa_to_dfa run for real but untraced on concrete patterns", "E2 models Pattern.consume as 'follow the unique transition whose Identity item equals the letter' (the real stepping is covered by E1)",
                        "predicates are pairwise disjoint (Identity atoms), as the statement requires"]
    ctx.outside += [f"patterns with more than {K} operators", f"sequences longer than {LMAX}", "overlapping predicates"]
    # ---- E2 first (cheap): translator validation on concrete words, then the symbolic query per pattern
    import itertools
    for t in trees[:40]:
        n_states, trans, acc = dfa_tables(t)
        for w in itertools.product(range(3), repeat=3):
            st = 0
            for x in w:
                st = trans.get((st, x), [-1])[0] if st >= 0 else -1
            real = match(pat.to_expression(t), list(w)) is not None
            if real != pat.ref_match(t, w):      # a concrete disagreement with the reference semantics is a violation in its own right
                ctx.violation(f"E2:match:{pat.show(t)}", f"pattern {pat.show(t)} word {w}: match={real}, reference {pat.ref_match(t, w)} (found while validating the DFA translation)", {"pattern": t, "word": list(w)})
                continue
            if (st in acc) != real:
                ctx.harness_error("E2-translator", f"DFA table of {pat.show(t)} disagrees with real match on {w}")
                return
    # quick tier: the trees with exactly K+1 operators in which a repetition has a nullable body (epsilon cycles in the construction) are added -
    # all of them to E1, a seeded sample of 16 to E2
    extra = []
    if ctx.quick():
        def rep_nullable(t):
            if t[0] == "atom":
                return False
            if t[0] in ("star", "plus") and pat.nullable(t[1]):
                return True
            return any(rep_nullable(c) for c in t[1:])
        known = set(trees)
        extra = [t for t in pat.all_trees(K + 1) if t not in known and rep_nullable(t)]
        ctx.bounds["patterns (nullable repetition bodies)"] = f"{len(extra)} trees with exactly {K + 1} operators whose star/plus has a nullable body"
    import random as _random
    sample = list(extra)
    _random.Random(ctx.seed).shuffle(sample)
    e2_deadline = (ctx.t0 + 0.4 * ctx.budget) if ctx.budget else None      # the queries run one after the other in this process: at most 40 % of the tier's wall budget
    for t in list(trees) + sample[:16]:
        ident = f"E2:{pat.show(t)}"
        if e2_deadline is not None and time.time() > e2_deadline:
            ctx.inconclusive_(ident, "not started: the E2 share of the tier's wall-time budget was used up")
            continue
        verdict, word, dt = z3_query(t, LMAX, z3)
        if verdict == "unsat":
            ctx.discharge(ident, 0, dt, {"query": ident, "result": "unsat (DFA == regex semantics for all words up to 12)", "s": round(dt, 3)} if len(ctx.samples) < 3 else None)
        elif verdict == "sat":
            w = ["abcd".index(ch) for ch in word]
            m = match(pat.to_expression(t), w) is not None
            sw = starts_with(pat.to_expression(t), w)
            k = sw.end if sw else None
            if m != pat.ref_match(t, w) or k != pat.ref_starts_with(t, w):
                ctx.violation(f"E2:{'match' if m != pat.ref_match(t, w) else 'starts_with'}:{pat.show(t)}",
                              f"pattern {pat.show(t)} word {word!r}: match={m} (reference {pat.ref_match(t, w)}), starts_with end={k} (reference {pat.ref_starts_with(t, w)})",
                              {"pattern": t, "word": w}, dt)
            else:
                ctx.harness_error(ident, f"z3 model {word!r} does not reproduce on the real matcher")
        else:
            ctx.inconclusive_(ident, verdict, dt)
    # ---- E1
    B = 8
    T = 150 if ctx.quick() else 600
    jobs = []
    trees = list(trees) + extra
    for i in range(0, len(trees), B):
        batch = trees[i:i + B]
        tag = f"trees[{i}:{i + len(batch)}] {pat.show(batch[0])}.."
        jobs.append(Job("c13.py", "h_match", {"patterns": batch, "L": L1}, T, 30, tag=tag))
        jobs.append(Job("c13.py", "h_starts_with", {"patterns": batch, "L": L1}, T, 30, tag=tag))
        jobs.append(Job("c13.py", "h_nfa_match", {"patterns": batch, "L": LN}, T, 30, tag=tag))
    # matching is a function of (pattern, sequence): patterns of equal shapes over different letters, one matched after the other in one process
    A, Bb, Cc = ("atom", 0), ("atom", 1), ("atom", 2)
    pairs = [("plus", ("alt", A, Bb)), ("plus", ("alt", Cc, A)), ("alt", A, ("seq", Bb, Cc)), ("alt", Cc, ("seq", A, Bb)), ("seq", A, ("opt", Bb)), ("seq", Cc, ("opt", A)), ("star", A), ("star", Bb)]
    for q in range(-1, len(pairs)):
        jobs.append(Job("c13.py", "h_match_after", {"patterns": pairs, "L": 3 if ctx.quick() else 4, "fix_q": q}, T, 30, tag=f"match after a match of pattern #{q}", meta={"twin": q == 0, "sigtag": "match:after"}))
    ctx.bounds["match history"] = f"{len(pairs)} patterns (equal shapes over different letters) x (no | each of them matched first) x every sequence of length <= 3 (quick) / 4"
    for c0 in range(8):
        jobs.append(Job("c13.py", "h_build", {"patterns": [], "nodes": NODES, "c0": c0}, T, 30, tag=f"prefix-code first={c0} nodes<={NODES}", meta={"twin": c0 == 4}))
    ctx.run_xh(jobs)


def replay(rp):
    from codelimit.common.gsm.matcher import match, starts_with
    t = tuple(rp["replay"]["pattern"])
    def tup(x):
        return tuple(tup(y) if isinstance(y, list) else y for y in x)
    t = tup(t)
    w = rp["replay"]["word"]
    m = match(pat.to_expression(t), w) is not None
    print("pattern", pat.show(t), "word", w, "match", m, "reference", pat.ref_match(t, w))
    return 1 if m != pat.ref_match(t, w) else 0
