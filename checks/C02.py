from vlib.xh import Job

LEVEL = "other"
EXPLANATION = ("Bounded symbolic execution (CrossHair 0.0.110 / z3) of the real threshold code: every view of the category of a length L "
               "is executed with L a solver variable (all L >= 1, unbounded) and compared with the statement's category function; "
               "check_command runs for real over stubbed file access with k<=3 symbolic lengths in 2 files.")


def run(ctx):
    ctx.functions += ["utils.make_profile", "utils.make_count_profile", "utils.get_style_for_measurement", "utils.get_emoji_for_measurement",
                      "utils.format_unit", "utils.format_measurement", "LanguageTotals.add", "CheckResult.add", "CheckResult.report",
                      "Report.all_report_units_sorted_by_length_asc", "Report.quality_profile", "format_text.print_findings", "format_markdown.print_findings",
                      "commands.check.check_command", "commands.check._handle_file_path", "commands.check.check_file"]
    ctx.bounds = {"L": "every integer >= 1 (unbounded, solver variable)", "k": "3 symbolic lengths over 2 files (h_multi, h_check); 1 (h_views, h_format, h_check1)", "quiet": "symbolic bool"}
    ctx.assumptions += ["S-fmt: digit rendering of ints is trusted (figures are opaque markers whose value is compared in the solver)",
                        "S-ui: rich Console/print replaced by a recorder in CheckResult's namespace",
                        "S-fs: open/lex/scan_file in commands.check replaced by stubs returning the symbolic measurement lists; files named a.py/b.py 'exist'",
                        "A-py: CrossHair's models of int/list/str are faithful"]
    ctx.outside += ["more than 3 lengths per query (the views are folds over the list; no induction claimed)", "directory arguments of check (see C12)"]
    T = 60 if ctx.quick() else 240
    jobs = [Job("c02.py", f, None, T, 20, tag="all-L") for f in ("h_views", "h_format", "h_multi", "h_rescan", "h_check1", "h_check")]
    ctx.run_xh(jobs)
