from checks import skel_common

LEVEL = "other"
EXPLANATION = ("For every skeleton (a canonical program rendered to text and lexed by the real Pygments lexer) CrossHair executes the real scan_file - filter_tokens, the language's "
               "extract_headers/extract_blocks, pairing, nocl filter, fold/filter/unfold, count_lines, span construction - with all line gaps and indentation columns as unbounded "
               "solver integers, and compares names, order, start, end and length with generator-side ground truth. Counterexamples are re-rendered as text and replayed through the real lexer.")


def run(ctx):
    ctx.functions += ["Scanner.scan_file", "scope_utils.build_scopes/_build_scopes_from_headers_and_blocks/_find_scope_blocks_indices/_get_nearest_block/fold_scopes/filter_scopes_nested_functions/unfold_scopes/count_lines/_scope_tokens/get_headers/get_blocks",
                      "languages.*.extract_headers/extract_blocks", "gsm.matcher.find_all/starts_with", "token_utils.get_balanced_symbol_token_indices", "TokenRange.*", "Scope.contains", "source_utils.filter_tokens/filter_nocl_comment_tokens"]
    ctx.outside += ["programs outside the generated family (larger, deeper, other statement kinds)", "what Pygments emits for texts other than the generated ones"]
    skel_common.run_c01(ctx)
