import time

from checks import soup_common
from vlib import capture
from vlib.xh import Job

LEVEL = "other"
EXPLANATION = ("Totality is decomposed: (1) no StopIteration in get_headers - a z3 reachability query on every real header DFA shows every accepting run takes a Name-labelled transition; "
               "no ambiguity ValueError - C15; (2) bounded model checking of the real scan_file on N fully symbolic tokens (class index and layout integers are solver variables) per language; "
               "(3) decoding: check_file and Scanner._read_file on symbolic bytes over the in-memory FS; (4) path arithmetic: the real check_command for every member of a pool of "
               "working directories x ways of naming files/directories (inside/outside cwd, '..', absolute, hidden, excluded).")


def name_on_every_accepting_run(ctx):
    import z3
    from codelimit.common.token_matching.predicate.Name import Name
    for lang in capture.LANG_NAMES:
        for pi, (expr, _follow) in enumerate(capture.capture(lang)):
            dfa, states, index = capture.build_dfa(expr)
            n = len(states)
            # reach[k][s]: state s reachable from the start in <= k steps using only transitions NOT labelled by a Name predicate
            t0 = time.time()
            s = z3.Solver()
            reach = [[z3.Bool(f"r_{k}_{i}") for i in range(n)] for k in range(n + 1)]
            for i in range(n):
                s.add(reach[0][i] == (i == 0))
            for k in range(1, n + 1):
                for j in range(n):
                    preds = [reach[k - 1][i] for i in range(n) for (p, tgt) in states[i].transition if index[id(tgt)] == j and not isinstance(p, Name)]
                    s.add(reach[k][j] == z3.Or([reach[k - 1][j]] + preds))
            acc = [index[id(a)] for a in dfa.accepting if id(a) in index]
            s.add(z3.Or([reach[n][a] for a in acc]) if acc else z3.BoolVal(False))
            r = str(s.check())
            ident = f"StopIteration-free:{lang}:pattern{pi}"
            if r == "unsat":
                ctx.discharge(ident, 0, time.time() - t0, {"query": ident, "result": "unsat: no accepting run avoids Name-labelled transitions", "dfa_states": n})
            elif r == "sat":
                ctx.violation(f"get_headers:StopIteration:{lang}:pattern{pi}", f"{lang} header pattern {pi} accepts a token sequence without any Name-predicate transition: get_headers' next(...) raises StopIteration", {"lang": lang, "pattern": pi})
            else:
                ctx.inconclusive_(ident, r)


def run(ctx):
    ctx.functions += ["Scanner.scan_file (+ everything below it)", "scope_utils.get_headers", "languages.Python.extract_blocks/_get_token_lines", "Scanner._read_file", "commands.check.check_command/_handle_file_path/check_file", "CheckResult.add"]
    ctx.assumptions += ["S-lex: soups are token sequences over the language's predicate-induced alphabet with the Pygments types the real lexer gives each member; a token-level counterexample is reported only if the text rendered from it reproduces through the real lexer",
                        "S-fs for decoding/path harnesses; default text encoding is UTF-8", "hangs: a path that does not finish is inconclusive, termination is claimed for explored paths only"]
    ctx.outside += ["soups longer than N", "Pygments' own behaviour on arbitrary bytes", "deep nesting beyond N tokens", "scan_command / report writing (C09, C10)"]
    name_on_every_accepting_run(ctx)
    if ctx.quick():
        plan = {"Python": 2, "C": 2, "JavaScript": 2, "Java": 2, "TypeScript": 2, "Cpp": 2, "CSharp": 2}
    else:
        plan = {"Python": 3, "C": 3, "JavaScript": 3, "Java": 3, "TypeScript": 2, "Cpp": 2, "CSharp": 2}     # N=4 did not finish inside any sensible budget (>2 h on 16 cores); N=3 for one language per family
    T = 150 if ctx.quick() else 600
    jobs = [Job("c03.py", "h_decode", {}, T, 30, tag="bytes<=3")]
    for ci in range(4):
        jobs.append(Job("c03.py", "h_paths", {"ci": ci}, T, 30, tag=f"cwd#{ci}", meta={"twin": ci == 0}))
    jobs += soup_common.mutation_jobs(ctx, ["two", "params-multiline", "one-arrow"] if ctx.quick() else None)
    jobs += soup_common.soup_jobs(ctx, "total", plan)       # the long ones last: under the tier's wall budget the cheap, diverse conditions are decided first
    ctx.bounds["decoding"] = "every byte string of length <= 3"
    ctx.bounds["paths"] = "4 working directories x 20 ways of naming a file or directory x (one | two arguments) x quiet"
    ctx.run_xh(jobs)
    # the ambiguity error (ValueError 'Multiple transitions found!') for ALL token texts and nesting depths: the C15 fixpoint, run here as well
    # because totality depends on it (signatures `ambiguous:...`)
    from checks import C15
    C15.run(ctx)
