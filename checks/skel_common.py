"""Drivers for the layout-symbolic skeleton harnesses (C01 layout vs ground truth, C04 comments/gaps vs baseline, C17 marker vs baseline)."""
from vlib import skel
from vlib.xh import Job

NOCL_LABELS = ("one-", "two", "three-global", "class-methods", "two-classes", "brace-next", "params-multiline", "stmt-mix", "nested-first", "nested-middle", "nested-two", "nested-3-levels")


def _jobs(ctx, mode, func, label_filter=None):
    tier = ctx.tier
    T = 150 if ctx.quick() else 600
    jobs = []
    n = 0
    for lang in skel.LANGS:
        for label, _items in skel.programs(lang, tier, ctx.seed):
            if label_filter and not label_filter(lang, label):
                continue
            n += 1
            long = label.startswith("long-")
            jobs.append(Job("skel_h.py", func, {"lang": lang, "tier": tier, "label": label, "mode": mode}, T * (3 if long else 1), 150 if long else 40, tag=f"{lang}/{label}/{mode}",
                            meta={"tolerant": False, "twin": label in ("two", "three-global", "one-fn")}))
    return jobs, n


COMMON_ASSUME = ["S-lex: token types/values are what the real Pygments lexer emits for the canonical text; that a re-laid-out text lexes to the same code tokens is assumed (checked once per counterexample by the replay through the real lexer)",
                 "skeleton families are enumerated from the canonical grammar up to the size bound; for each skeleton the solver decides every layout"]


def run_c01(ctx):
    jobs, n = _jobs(ctx, "layout", "h_layout", lambda lang, label: not label.startswith(("cmt-", "cmt1-", "cmtx-")))
    ctx.bounds.update({"skeletons": f"{n} canonical programs over 7 languages ({ctx.tier} family: header kinds, brace styles, parameter styles, statement mixes, classes, nesting positions/depth <= 3, body lengths around 15/30/60)",
                       "layout": "<= 10 line gaps per skeleton, each any integer >= 0 (simultaneously); indentation columns of up to 5 levels any strictly increasing integers >= 1"})
    ctx.assumptions += COMMON_ASSUME
    return ctx.run_xh(jobs)


def run_c04(ctx):
    jobs, n = _jobs(ctx, "comments", "h_layout", lambda lang, label: not label.startswith(("cmt-", "cmt1-", "cmtx-")))
    jobs2, n2 = _jobs(ctx, "gaps-vs-base", "h_layout", lambda lang, label: not label.startswith(("long-", "cmt-", "cmt1-", "cmtx-")))
    # programs whose SOURCE TEXT carries comments, lexed by the real lexer, against generator ground truth (which only looks at code tokens)
    jobs3, n3 = _jobs(ctx, "layout", "h_layout", lambda lang, label: label.startswith(("cmt-", "cmt1-", "cmtx-")))
    jobs2 = jobs2 + jobs3
    ctx.bounds["commented source"] = f"{n3} programs rendered with comment-only lines (column 1 and indented), block comments and trailing comments in the text, lexed by the real lexer; gaps/columns symbolic"
    ctx.bounds.update({"skeletons": f"{n} canonical programs over 7 languages", "insertions": "a comment-only line (with leading whitespace token) above every chosen line boundary AND a trailing comment (line or block style) plus trailing whitespace after every line, simultaneously; in addition any number >= 0 of blank lines at <= 10 boundaries; second family: blank lines only",
                       "oracle": "metamorphic: the real scan_file on the canonical stream, re-laid-out through the same symbolic line/column map"})
    ctx.assumptions += COMMON_ASSUME
    # vendored real-world files (corpus/): the same metamorphic harness on the real lexer's tokens of whole files. Insertion points are the lines at which the
    # real lexer, run on the concretely modified text, yields the same code tokens (token-safe by construction); indentation is left as it is.
    jobs4 = []
    nfiles = 0
    T = 200 if ctx.quick() else 600
    for lang in skel.LANGS:
        for k, (label, _text) in enumerate(skel.corpus_files(lang)):
            nfiles += 1
            plan = [("comments", 0)] + ([("gaps-vs-base", 1)] if k % 2 == 0 else []) if ctx.quick() else [(m, b) for m in ("comments", "gaps-vs-base") for b in range(6)]
            for mode, bsel in plan:
                jobs4.append(Job("skel_h.py", "h_layout", {"lang": lang, "tier": ctx.tier, "label": label, "mode": mode, "bsel": bsel}, T, 150, tag=f"{lang}/{label}/{mode}/bounds#{bsel}", meta={"tolerant": False, "twin": bsel == 0 and k == 0}))
    ctx.bounds["corpus"] = (f"{nfiles} vendored real-world files (7 languages, 14..250 lines): <= 10 token-safe boundaries per condition (every n-th safe line, offset = bounds#), any number of blank lines at each; "
                            "comments mode adds a comment-only line and whitespace-only lines above each boundary and a trailing comment after every line where the real lexer confirms it is token-safe")
    ctx.outside += ["corpus: simultaneous insertions at more than 10 boundaries; re-indentation of real files"]
    # blank lines inserted at the very TOP of a file shift every reported line too: the file-level entry point on texts with leading blank / whitespace-only lines (C05/C06's harness)
    jobs5 = [Job("c06.py", "h_analyze_history", {"which": "history", "fix_n": 1, "fix_e1": e1}, T, 60, tag=f"file-level positions (leading blank lines, CRLF), ext #{e1}", meta={"sigtag": "file-level", "twin": e1 == 0}) for e1 in range(7)]
    return ctx.run_xh(jobs + jobs2 + jobs4 + jobs5)


def run_c17(ctx):
    jobs, n = _jobs(ctx, "nocl", "h_nocl", lambda lang, label: label.startswith(NOCL_LABELS) and "async" not in label)
    for lang in skel.LANGS:
        for label in skel.extra_programs(lang):
            if label.startswith("x-decl-"):
                n += 1
                jobs.append(Job("skel_h.py", "h_nocl", {"lang": lang, "tier": ctx.tier, "label": label, "mode": "nocl"}, 150 if ctx.quick() else 600, 40, tag=f"{lang}/{label}/nocl", meta={"tolerant": False, "twin": False}))
    for lang in ("C", "Cpp", "Java", "JavaScript", "Python"):
        n += 1
        jobs.append(Job("skel_h.py", "h_nocl", {"lang": lang, "tier": ctx.tier, "label": "x-bom-two", "mode": "nocl"}, 150 if ctx.quick() else 600, 40, tag=f"{lang}/x-bom-two/nocl", meta={"tolerant": False, "twin": False}))
    ctx.bounds.update({"part 2 skeletons": f"{n} canonical programs (<= 3 functions; with nesting only the presence of the functions related to the marked one is prescribed)", "marker line": "any line >= 1 (solver variable), together with <= 10 unbounded line gaps"})
    ctx.assumptions += COMMON_ASSUME
    return ctx.run_xh(jobs)
