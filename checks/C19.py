import json
import time

from vlib import smt
from vlib.xh import Job

LEVEL = "other"
EXPLANATION = ("E2(a): Report.quality_profile_percentage is translated from its AST (re-read from /repo on every run) into QF_BVFP - profile entries as bit-vectors, "
               "int/int true division, *100, -0.001 as IEEE-754 binary64 RNE operations, ceil as round-toward-positive - and each clause of the statement is a "
               "separate unsat query over all profiles with total <= 2^B, solved by z3 and cvc5 independently; E2(b): a mixed real/integer relaxation with an explicit "
               "rounding-error slack extends the two-point and range clauses to unbounded totals; the verdict branches (text, Markdown, SummaryTable) are executed by CrossHair "
               "with the percentages as unbounded solver variables.")


def build(B, W=None):
    import z3
    from codelimit.common.report.Report import Report
    from vlib.py2smt import Translator, V
    W = W or B + 10
    T = Translator(W)
    f = T.function(Report.quality_profile_percentage)
    P = [z3.BitVec(f"p{i}", W) for i in range(4)]
    prof = V("list", [V("int", p) for p in P])
    res = T.run(f, {"self": V("obj", None)}, {"self.quality_profile": lambda: prof})
    if res.kind != "list" or len(res.term) != 4:
        raise RuntimeError("unexpected return shape")
    build.approx = list(T.approximations)
    return z3, W, P, [v.term for v in res.term]


def real(p):
    from codelimit.common.report.Report import Report
    r = Report.__new__(Report)
    r.quality_profile = lambda: list(p)
    return tuple(r.quality_profile_percentage())


def clauses_violated(p, shown):
    """The statement's clauses, evaluated exactly (rational arithmetic) on a concrete profile and the REAL method's output."""
    from fractions import Fraction as Fr
    e, v, h, u = shown
    total = sum(p)
    bad = []
    ev = e + v
    for name, val in (("easy-or-verbose", ev), ("hard", h), ("unmaintainable", u)):
        if not (isinstance(val, int) and 0 <= val <= 100):
            bad.append(f"{name}-out-of-0..100")
    if ev + h + u != 100:
        bad.append("sum-not-100")
    if total > 0:
        share = {"easy-or-verbose": Fr(100 * (p[0] + p[1]), total), "hard": Fr(100 * p[2], total), "unmaintainable": Fr(100 * p[3], total)}
        for name, val in (("easy-or-verbose", ev), ("hard", h), ("unmaintainable", u)):
            if abs(val - share[name]) > 2:
                bad.append(f"{name}-more-than-two-points-off")
        for name, val in (("hard", h), ("unmaintainable", u)):
            if share[name] > Fr(1, 1000) and val == 0:
                bad.append(f"{name}-nonzero-share-shown-as-0")
    return bad


def run(ctx):
    B = 6 if ctx.quick() else 10
    ctx.functions += ["Report.quality_profile_percentage (AST -> QF_BVFP)", "format_text.print_summary", "format_markdown.print_summary", "SummaryTable.__init__"]
    ctx.bounds = {"QF_BVFP": f"all profiles of four non-negative integers with total <= 2^{B}; plus one risky category of 1..3 lines in an otherwise easy codebase of up to 300 000 lines (the 0.001 % clause)", "relaxation": "unbounded totals under the rounding-error assumption", "verdict": "all integer percentage tuples (unbounded)"}
    ctx.assumptions += ["CPython float semantics = IEEE-754 binary64 round-to-nearest-even; int/int true division is correctly rounded (exact here: operands < 2^53)",
                        "relaxation (b): the three float roundings at magnitude <= 128 perturb the value by less than 2^-40 in total", "S-fmt / S-ui for the verdict harness"]
    ctx.outside += [f"exact float behaviour for totals > 2^{B} (covered only by the relaxation)", "locale digit rendering"]
    try:
        z3, W, P, (easy, verbose, hard, unm) = build(B)
    except Exception as e:
        ctx.harness_error("translator", "quality_profile_percentage uses syntax the AST->SMT translator does not model: " + repr(e))
        return
    # ---- translator validation on the repository's own test inputs and a small grid (concrete evaluation of the formula vs. the real method)
    tests = [[2530, 2883, 1395, 0], [630, 300, 70, 0], [0, 0, 0, 0], [16, 0, 31, 61], [1, 1, 1, 1], [0, 0, 3, 11], [7, 0, 0, 1], [0, 5, 0, 0]]
    lim = 2 ** (W - 1) - 1
    nval = 0
    for p in tests + [[a, b, c, d] for a in (0, 3) for b in (0, 2, 9) for c in (0, 1, 7) for d in (0, 1, 5)]:
        if sum(p) > lim or 100 * max(p) > lim:
            continue
        sub = [(P[i], z3.BitVecVal(p[i], W)) for i in range(4)]
        got = tuple(z3.simplify(z3.substitute(t, *sub)).as_signed_long() for t in (easy, verbose, hard, unm))
        nval += 1
        if got != real(p):
            if getattr(build, "approx", None):
                ctx.notes.append(f"approximate encoding differs from the real method on {p}: {got} vs {real(p)}")
                continue
            ctx.harness_error("translator-validation", f"encoding gives {got}, real method gives {real(p)} on {p}")
            return
    ctx.extra["translator_validated_on"] = nval
    total = P[0] + P[1] + P[2] + P[3]
    ev = easy + verbose
    HUND = z3.BitVecVal(100, W)

    def base():
        s = z3.Solver()
        for p in P:
            s.add(p >= 0, p <= 2 ** B)
        s.add(total <= 2 ** B)
        return s

    def absdiff(a, b):
        return z3.If(a >= b, a - b, b - a)
    Q = {
        "range:hard": z3.Or(hard < 0, hard > 100),
        "range:unmaintainable": z3.Or(unm < 0, unm > 100),
        "range:easy-or-verbose>100": ev > 100,
        "range:easy-or-verbose<-1": ev < -1,
        "range:easy-or-verbose==-1": ev == -1,      # the listed known finding lives exactly here; anything else out of range is a new violation
        "sum": ev + hard + unm != 100,
        "two-points:hard": z3.And(total > 0, absdiff(hard * total, HUND * P[2]) > 2 * total),
        "two-points:unmaintainable": z3.And(total > 0, absdiff(unm * total, HUND * P[3]) > 2 * total),
        # easy-or-verbose within two points, compositionally (the direct query needs three symbolic products and does not finish):
        #   (i) each of hard / unmaintainable is strictly less than ONE point off, (ii) ev == 100 - hard - unmaintainable, (iii) linear lemma below
        "one-point:hard": z3.And(total > 0, absdiff(hard * total, HUND * P[2]) >= total),
        "one-point:unmaintainable": z3.And(total > 0, absdiff(unm * total, HUND * P[3]) >= total),
        "identity:ev=100-hard-unmaintainable": ev != HUND - hard - unm,
        "nonzero:hard": z3.And(P[2] >= 1, hard == 0),              # any non-empty category exceeds 0.001 % when total <= 2^B < 100000
        "nonzero:unmaintainable": z3.And(P[3] >= 1, unm == 0),
        "witness(reachability)": z3.And(hard == 50, unm == 25),   # must be SAT: guards against a vacuous encoding
    }
    queries = []
    for name, c in Q.items():
        s = base()
        s.add(c)
        queries.append((name, smt.to_smt2(s, "QF_BVFP"), [f"p{i}" for i in range(4)]))
    # tiny shares in LARGE codebases (the 0.001 % clause is vacuous for totals <= 2^B): one risky category of 1..3 lines, everything else easy, totals up to 300 000
    _z, W2, P2, (e2, v2, h2, u2) = build(B, 28)
    for cat, shown in ((2, h2), (3, u2)):
        s = z3.Solver()
        s.add(P2[1] == 0, P2[5 - cat] == 0, P2[cat] >= 1, P2[cat] <= 3, P2[0] >= 0, P2[0] <= 300000)
        s.add(z3.BitVecVal(100000, W2) * P2[cat] > P2[0] + P2[cat], shown == 0)
        queries.append((f"tiny-share:{'hard' if cat == 2 else 'unmaintainable'}", smt.to_smt2(s, "QF_BVFP"), [f"p{i}" for i in range(4)]))
    TL = 250.0 if ctx.quick() else 900.0
    res = smt.solve_all(queries, TL, ctx.nproc)
    for name, _, _ in queries:
        r = res[name]
        ident = f"BVFP[B={B}]:{name}" if not name.startswith("tiny-share") else f"BVFP[total<=300003]:{name}"
        ctx.extra.setdefault("queries_detail", []).append({"query": ident, "answers": r["answers"], "seconds": round(r["seconds"], 1)})
        if name.startswith("witness"):
            if r["verdict"] != "sat":
                ctx.harness_error(ident, f"reachability witness not SAT: {r['answers']}")
            continue
        if r["verdict"] == "unsat" and getattr(build, "approx", None):
            ctx.inconclusive_(ident, f"unsat, but the function uses constructs encoded only approximately ({build.approx}); not claimed", r["seconds"])
        elif r["verdict"] == "unsat":
            ctx.discharge(ident, 0, r["seconds"], {"query": ident, "result": "unsat", "solvers": r["answers"]})
        elif r["verdict"] == "sat":
            p = [int(r["model"].get(f"p{i}", 0)) for i in range(4)]
            shown = real(p)
            bad = clauses_violated(p, shown)
            if bad:
                ctx.violation("percentages:" + "+".join(sorted(bad)), f"profile {p} -> (easy, verbose, hard, unmaintainable) = {shown}: {bad}", {"profile": p, "shown": shown, "query": name}, r["seconds"])
            else:
                ctx.harness_error(ident, f"model {p} does not violate the statement on the real method ({shown})")
        elif r["verdict"] == "disagree":
            ctx.harness_error(ident, f"solvers disagree: {r['answers']}")
        else:
            ctx.inconclusive_(ident, json.dumps(r["answers"]), r["seconds"])
    # (iii) |Dh| < T and |Du| < T  ==>  |(100-h-u)T - 100(T-p2-p3)| = |Dh + Du| <= 2T   (Dh = hT - 100 p2, Du = uT - 100 p3)
    Dh, Du, Tt = z3.Ints("Dh Du T")
    sl = z3.Solver()
    sl.add(Tt > 0, Dh < Tt, Dh > -Tt, Du < Tt, Du > -Tt, z3.Or(-(Dh + Du) > 2 * Tt, (Dh + Du) > 2 * Tt))
    t = time.time()
    r = str(sl.check())
    if r == "unsat":
        ctx.discharge("lemma:two-points:easy-or-verbose from one-point bounds", 0, time.time() - t, {"query": "linear lemma composing one-point:hard, one-point:unmaintainable and the identity into two-points:easy-or-verbose", "result": "unsat"})
    else:
        ctx.harness_error("lemma", r)
    relaxation(ctx, z3)
    ctx.run_xh([Job("c19.py", "h_verdict", None, 120 if ctx.quick() else 600, 30, tag="all percentage tuples"),
                Job("c19.py", "h_summary_real", None, 120 if ctx.quick() else 600, 30, tag="real reports: 5 codebases x (no | 5 comparison reports) x text/markdown x figures asked 0..2 times before")])
    ctx.bounds["summary of real reports"] = "print_report (text and Markdown) on Report objects of 5 small codebases, alone or compared with each of the 5, after 0..2 earlier requests for the percentages: table and verdict are those of the current report"


def relaxation(ctx, z3):
    """(b) shares as reals, three float roundings as one bounded slack each; ceil as an integer between. Unsat extends the clause to any total."""
    t0 = time.time()
    EPS = z3.Q(1, 2 ** 40)
    sh = [z3.Real(f"s{i}") for i in range(4)]
    ks = [z3.Int(f"k{i}") for i in range(4)]
    ds = [z3.Real(f"d{i}") for i in range(4)]
    base = [s >= 0 for s in sh] + [z3.Sum(sh) == 1]
    for i in (1, 2, 3):
        y = 100 * sh[i] - z3.Q(1, 1000) + ds[i]
        base += [ds[i] <= EPS, ds[i] >= -EPS, ks[i] - 1 < y, y <= ks[i]]
    v, h, u = ks[1], ks[2], ks[3]
    ev = 100 - h - u
    goals = {
        "range:hard": z3.Or(h < 0, h > 100), "range:unmaintainable": z3.Or(u < 0, u > 100),
        "two-points:hard": z3.Or(h - 100 * sh[2] > 2, 100 * sh[2] - h > 2), "two-points:unmaintainable": z3.Or(u - 100 * sh[3] > 2, 100 * sh[3] - u > 2),
        "two-points:easy-or-verbose": z3.Or(ev - 100 * (sh[0] + sh[1]) > 2, 100 * (sh[0] + sh[1]) - ev > 2),
        "nonzero:hard": z3.And(100 * sh[2] > z3.Q(1, 1000) + 2 * EPS, h == 0), "nonzero:unmaintainable": z3.And(100 * sh[3] > z3.Q(1, 1000) + 2 * EPS, u == 0),
    }
    for name, g in goals.items():
        s = z3.Solver()
        s.set("timeout", 60000)
        s.add(base + [g])
        t = time.time()
        r = str(s.check())
        dt = time.time() - t
        ident = f"relaxed[unbounded total]:{name}"
        if r == "unsat":
            ctx.discharge(ident, 0, dt, {"query": ident, "result": "unsat"} if name == "two-points:easy-or-verbose" else None)
        elif r == "sat":
            ctx.inconclusive_(ident, "relaxation admits a candidate (over-approximation); not a verdict", dt)
        else:
            ctx.inconclusive_(ident, r, dt)


def replay(rp):
    p = rp["replay"]["profile"]
    shown = real(p)
    bad = clauses_violated(p, shown)
    print("profile", p, "->", shown, "violated clauses:", bad)
    return 1 if bad else 0
