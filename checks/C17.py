from vlib.xh import Job

LEVEL = "other"
EXPLANATION = ("Part 1: CrossHair executes the real filter_nocl_comment_tokens on one comment token whose text is assembled from solver-chosen parts (leader, number of blanks, "
               "letter case of each marker letter, tail; or an arbitrary body over a small alphabet) and compares with the statement's definition of a marker comment. "
               "Part 2: skeleton differential through the real scan_file with the marker comment at a symbolic line (see harness/skel.py, run from this check).")


def run(ctx):
    ctx.functions += ["source_utils.filter_nocl_comment_tokens", "Token.is_comment", "scope_utils._filter_nocl_scopes (part 2)", "Scanner.scan_file (part 2)"]
    alpha = " nocl;,x" if ctx.quick() else " noclNO;,x#"
    nb = 4 if ctx.quick() else 5
    ctx.bounds = {"marked": "leader in {#, //, /*} x 7 gaps (0, 1, 2, 12, 40 blanks, tab, mixed) x every letter-case combination of 'nocl' x 8 tails x 4 comment kinds x any line",
                  "unmarked": f"leader x 0..1 blanks x every body of length 1..{nb} over the alphabet {alpha!r}"}
    ctx.assumptions += ["S-lex: which tokens Pygments classifies as comments is not part of this check", "string parts are drawn from concrete pools by symbolic index (str.lower/strip on symbolic strings are not decidable with CrossHair): the verdict is for every combination of the pools, not for every string"]
    ctx.outside += ["comment texts outside the pools (e.g. non-ASCII letters whose lower-case form is ASCII)", "';' leader (no supported language uses it)"]
    T = 200 if ctx.quick() else 600
    jobs = []
    for li in range(3):
        jobs.append(Job("c17.py", "h_marked", {"leader": li}, T, 30, tag=f"leader={li}"))
        for b0 in range(len(alpha)):
            jobs.append(Job("c17.py", "h_unmarked", {"leader": li, "alpha": alpha, "nb": nb, "b0": b0}, T, 30, tag=f"leader={li},first={alpha[b0]!r}", meta={"twin": alpha[b0] == "x"}))
    # part 2 first: many short conditions; the long pool conditions of part 1 then use what is left of the tier's wall budget
    from checks import skel_common
    skel_common.run_c17(ctx)
    ctx.run_xh(jobs)
