import concurrent.futures as cf
import json

from vlib import capture, xh

LEVEL = "model_checking"
EXPLANATION = ("For every language the (header, follow-up) expressions are captured from the real extract_headers and their DFAs built by the real nfa_to_dfa. "
               "Reachable configurations (DFA state x depth class {<0,0,1,>=2} per Balanced predicate) are computed as a symbolic fixpoint: CrossHair executes one real "
               "Pattern.consume step from an arbitrary known configuration on an arbitrary token (kind index, unbounded string value, unbounded depth inside its class) "
               "and every counterexample to closure adds a configuration until closure is confirmed over all paths; on the closed set CrossHair then decides that the step never "
               "raises 'Multiple transitions found!'. Ambiguities are replayed as source text through the real lexer and scan_file.")

DEFAULT = {"Name": "x", "Keyword": "return", "Punctuation": ",", "Operator": "+", "Literal": "1", "String": "'s'", "Number": "1", "Text": "x", "Other": "x",
           "Comment": "x", "Error": "x", "Escape": "x", "Generic": "x", "Whitespace": "x"}


def render(chain):
    words = []
    for typ, val in chain:
        fam = typ.split(".")[1] if "." in typ else "Text"
        if val and val.isprintable() and not val.isspace() and " " not in val:
            words.append(val)
        else:
            words.append(DEFAULT.get(fam, "x"))
    return " ".join(words)


def real_replay(lang, prefix_chain, chain):
    """Text through the real lexer and scan_file: reproduced iff 'Multiple transitions found!' escapes."""
    from pygments.lexers import get_lexer_by_name
    from codelimit.common.lexer_utils import lex
    from codelimit.common.Scanner import scan_file
    texts = []
    base = render(list(prefix_chain) + list(chain))
    texts.append(base)
    texts.append(base + " {\n}\n")
    texts.append("class A {\n" + base + "\n}\n")
    # contexts in which a lexer classifies a keyword-like word as a plain name (object keys, member access)
    texts.append("call({" + base + ": 1, r: 3})")
    texts.append("x = {" + base + ": true}")
    texts.append("obj." + base)
    texts.append("@" + base)
    for text in texts:
        toks = lex(get_lexer_by_name(capture.LEXER_FOR[lang]), text, False)
        try:
            scan_file(toks, capture.language(lang))
        except ValueError as e:
            if "Multiple transitions" in str(e):
                return True, text
        except Exception:
            pass
    return False, texts[0]


def run(ctx):
    ctx.functions += ["languages.*.extract_headers (expressions captured)", "gsm.Expression.expression_to_nfa/nfa_to_dfa (real DFAs)", "gsm.Pattern.consume", "token_matching.predicate.*.accept (Balanced, Name, Keyword, Symbol, Operator, TokenValue, And, Or, Not)", "Token.is_keyword/is_name/is_symbol/is_operator"]
    ctx.bounds = {"token kind": "every top-level Pygments type family (+ String, Number, Name.Function, Keyword.Declaration)", "token value": "unbounded string (solver variable)",
                  "nesting depth": "unbounded int inside its class {<0, 0, 1, >=2}", "automaton states": "all states of the real DFA (finite)"}
    ctx.assumptions += ["token kinds that no predicate distinguishes behave like their family representative (predicates test family membership only)",
                        "S-auto: DFA construction runs for real, concretely"]
    tasks = []
    for lang in capture.LANG_NAMES:
        r = xh.call("c15.py", "n_automata", {"lang": lang}, wall_timeout=120)
        if "value" not in r:
            ctx.harness_error(f"capture:{lang}", json.dumps(r)[:800])
            continue
        for i, a in enumerate(r["value"]):
            tasks.append((lang, i, a))
    T = 200.0 if ctx.quick() else 600.0
    results = {}
    with cf.ThreadPoolExecutor(max_workers=ctx.nproc) as ex:
        futs = {ex.submit(xh.call, "c15.py", "fixpoint", {"lang": lang, "automaton": i}, {"cond_timeout": T, "path_timeout": 30.0}, T * 12): (lang, i, a) for lang, i, a in tasks}
        for fut in cf.as_completed(futs):
            results[futs[fut][:2]] = (futs[fut][2], fut.result())
    # fallback for automata whose unbounded-text conditions CrossHair could not decide: the same fixpoint with the token text drawn from a finite pool
    retry = [(lang, i, a) for (lang, i), (a, res) in sorted(results.items()) if (res.get("value") or {}).get("status") == "inconclusive"]
    if retry:
        with cf.ThreadPoolExecutor(max_workers=ctx.nproc) as ex:
            futs = {ex.submit(xh.call, "c15.py", "fixpoint", {"lang": lang, "automaton": i}, {"cond_timeout": T, "path_timeout": 30.0, "pool": True}, T * 12): (lang, i, a) for lang, i, a in retry}
            for fut in cf.as_completed(futs):
                lang, i, a = futs[fut]
                v2 = fut.result().get("value")
                if v2 and v2.get("status") == "ok":
                    ctx.notes.append(f"{lang}:pair{a['pair']}.{a['part']}: unbounded token text undecided ({results[(lang, i)][1]['value']['detail'][:80]}); decided over a {v2['text'][:60]}...")
                    ctx.inconclusive_(f"{lang}:pair{a['pair']}.{a['part']}:unbounded-text", "token text as an unbounded string was not decided by the solver; the finite-pool fallback was decided instead")
                    results[(lang, i)] = (a, fut.result())
    states = transitions = 0
    accepting_chain = {}
    for (lang, i), (a, res) in sorted(results.items()):
        v = res.get("value")
        if v and v.get("status") == "ok" and a["part"] == "header":
            accepting_chain[(lang, a["pair"])] = v["accepting_chain"]
    for (lang, i), (a, res) in sorted(results.items()):
        ident = f"{lang}:pair{a['pair']}.{a['part']}"
        v = res.get("value")
        if v is None:
            ctx.harness_error(ident, json.dumps(res)[:1000])
            continue
        if v["status"] == "error":
            ctx.harness_error(ident, v["detail"])
            continue
        if v["status"] == "inconclusive":
            ctx.inconclusive_(ident, v["detail"], v.get("wall", 0))
            continue
        ctx.paths += v["paths"]
        states += len(v["known"])
        transitions += v["transitions"]
        ctx.extra.setdefault("automata", []).append({"automaton": ident, "dfa_states": v["states"], "reachable_configurations": len(v["known"]), "closure_iterations": v["closure_iterations"], "ambiguous": len(v["ambiguous"]), "wall_s": round(v["wall"], 1)})
        if not v["ambiguous"]:
            ctx.discharge(ident, 0, v["wall"], {"automaton": ident, "reachable configurations": v["known"], "result": "closure confirmed, no ambiguous step over all token kinds/depths; token text: " + v.get("text", "unbounded")[:80]})
            continue
        ctx.solver_s += v["wall"]
        for amb in v["ambiguous"]:
            prefix = accepting_chain.get((lang, a["pair"]), []) if a["part"] == "follow" else []
            ok, text = real_replay(lang, prefix, amb["chain"])
            deep = any(c in ("1", "ge2") for c in amb["config"][1])
            sig = f"ambiguous:{lang}:{a['part']}:{'&'.join(amb['accepting'])}:{'inside-parens' if deep else 'depth0'}"
            what = f"{ident} config {amb['config']} token {amb['token']} accepted by {amb['accepting']}; source text {text!r}"
            if ok:
                ctx.violation(sig, what, {"lang": lang, "text": text, "ambiguity": amb})
                ctx.extra["traces_validated_against_impl"] = ctx.extra.get("traces_validated_against_impl", 0) + 1
            else:
                ctx.notes.append("contract-level only (no source text found whose real tokens reproduce it): " + what)
                ctx.inconclusive_(ident + ":" + sig, "ambiguity exists for a token the real lexer was not shown to produce: " + what)
    ctx.extra.update({"states": max(states, 1), "transitions": max(transitions, 1), "traces_validated_against_impl": ctx.extra.get("traces_validated_against_impl", 0), "exhaustive": not ctx.inconclusive})


def replay(rp):
    r = rp["replay"]
    ok, text = real_replay(r["lang"], [], [])  # text is stored verbatim below
    from pygments.lexers import get_lexer_by_name
    from codelimit.common.lexer_utils import lex
    from codelimit.common.Scanner import scan_file
    try:
        scan_file(lex(get_lexer_by_name(capture.LEXER_FOR[r["lang"]]), r["text"], False), capture.language(r["lang"]))
    except ValueError as e:
        print("reproduced:", repr(e), "on", repr(r["text"]))
        return 1
    print("not reproduced on", repr(r["text"]))
    return 0
