from vlib.xh import Job

LEVEL = "other"
EXPLANATION = ("CrossHair executes the real lex() over a stub lexer that yields an arbitrary token stream (three tokens at arbitrary offsets with arbitrary lengths, kinds and "
               "whitespace-ness, zero-length tokens allowed as Pygments' contract allows them) and an arbitrary strictly increasing newline-offset list (0..3 newlines): offsets, lengths "
               "and newline positions are unbounded solver integers, so file size is unbounded. Unit contracts of get_newline_indices / location_to_index / filter_tokens are decided on symbolic strings.")


def run(ctx):
    ctx.functions += ["lexer_utils.lex", "source_utils.get_newline_indices", "source_utils.location_to_index", "source_utils.filter_tokens", "Token.is_whitespace", "Token.is_comment", "Location.lt"]
    ctx.bounds = {"newlines": "0..3 per query, at arbitrary (unbounded) offsets", "tokens": "3 per query at arbitrary non-overlapping offsets with arbitrary lengths >= 0", "unit strings": "length <= 4 (any characters)"}
    ctx.assumptions += ["S-lex: Pygments honours get_tokens_unprocessed's contract (offsets in order, values tile the text); token text is modelled by its length and whitespace-ness only",
                        "the loop in lex() carries only (newline_index, line_start), which are monotone functions of the last offset seen, so three tokens with arbitrary gaps stand for any three tokens of a longer stream (argument, not solver-checked)"]
    ctx.outside += ["what the real lexers emit for a given text (only the repository's own lexing of sample texts is used, in the replay)", "more than 3 newlines between the observed tokens per query"]
    T = 200 if ctx.quick() else 600
    jobs = []
    for K in (0, 1, 2, 3):   # positions: three kept tokens, every interleaving of offsets and newline offsets
        jobs.append(Job("c16.py", "h_lex", {"K": K, "fixed_kind": True}, T, 30, tag=f"positions K={K}", meta={"twin": K >= 1, "sigtag": "lex"}))
    for k0 in range(5):      # filtering: arbitrary kinds / whitespace-ness / zero lengths, one newline
        for K in ((0, 1) if ctx.quick() else (0, 1, 2)):
            jobs.append(Job("c16.py", "h_lex", {"K": K, "k0": k0}, T * 2, 30, tag=f"filtering K={K},first-kind={k0}", meta={"twin": k0 == 0 and K == 1, "sigtag": "lex"}))
    for a0 in range(7):      # purity: the same text lexed twice / with another text in between / three times gives the same positions (texts of 3 + 1 free characters over a pool incl. LF, CR, FF)
        jobs.append(Job("c16.py", "h_lex_twice", {"fix_a0": a0}, T, 30, tag=f"lexing is a function of the text, first char #{a0}", meta={"twin": a0 == 0, "sigtag": "lex-purity"}))
    jobs.append(Job("c16.py", "h_newlines", {}, T, 30, tag="|code|<=4"))
    jobs.append(Job("c16.py", "h_filter", {}, T, 30, tag="any kind/value"))
    ctx.run_xh(jobs)
