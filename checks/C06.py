import json

from vlib import capture, xh
from vlib.xh import Job

LEVEL = "other"
EXPLANATION = ("(1) isolation: CrossHair runs scan_file(B); scan_file(A); scan_file(B) in one process with A a fully symbolic token soup (class indices and layout are solver variables, including soups that abort matching midway) "
               "and requires identical results for B, also when the global State._id counter has moved; (2) hash-seed independence, modelled by its only effect on this code (S-hash: iteration order of sets, which fixes the order of a DFA "
               "state's transition list): one real Pattern.consume step from EVERY state of every captured automaton, for every token kind, unbounded token text and nesting depth, gives the same outcome under every permutation of the "
               "transition list; (3) insertion order: Codebase.add_file in every permutation of three files with unbounded values; (4) traversal order: scan_path over the in-memory FS under reversed / rotated sibling orders.")


def run(ctx):
    ctx.functions += ["Scanner.scan_file", "gsm.Pattern.consume (deepcopy of predicates)", "token_matching.predicate.Balanced (depth state)", "gsm.automata.State._id", "languages.*.extract_headers (expressions rebuilt per call)", "Codebase.add_file/aggregate", "Scanner.scan_path"]
    ctx.assumptions += ["S-hash: PYTHONHASHSEED influences this code only through the iteration order of sets in gsm.Expression, i.e. the order of each DFA state's transition list and DFA state numbering; numbering is not observable by Pattern",
                        "nondeterminism inside Pygments is out of scope", "S-fs for the traversal harness"]
    ctx.outside += ["real PYTHONHASHSEED values / OS directory orders (covered through their modelled effect only)", "soups longer than N", "threads"]
    T = 240 if ctx.quick() else 600
    jobs = []
    iso = []      # isolation conditions: the longest ones in the thorough tier, appended last so the wall budget is spent on the diverse ones first
    N = 2 if ctx.quick() else 3
    for lang in (("Python", "JavaScript", "Java", "C") if ctx.quick() else capture.LANG_NAMES):
        r = xh.call("soup.py", "_alphabet", {"lang": lang}, wall_timeout=120)
        alpha = [w for _t, w in r.get("value", [])]
        # concrete-after-selection and untraced; one condition per class of the soup's first token so the 16 workers share the work
        NL = N if lang in ("Python", "JavaScript") else 2
        for k in range(len(alpha)):
            iso.append(Job("c06.py", "h_isolation", {"which": "isolation", "lang": lang, "N": NL, "first": k}, T, 60, tag=f"isolation {lang} N={NL} first={alpha[k]!r}", meta={"twin": k == 0, "sigtag": f"isolation:{lang}"}))
            iso.append(Job("c06.py", "h_first_file", {"which": "isolation", "lang": lang, "N": NL, "first": k}, T, 60, tag=f"soup analysed first in the process {lang} N={NL} first={alpha[k]!r}", meta={"twin": False, "sigtag": f"first-file:{lang}"}))
    for lang in capture.LANG_NAMES:
        r = xh.call("c15.py", "n_automata", {"lang": lang}, wall_timeout=120)
        for i, a in enumerate(r.get("value", [])):
            jobs.append(Job("c06.py", "h_consume_order", {"which": "consume", "lang": lang, "automaton": i}, T, 60, tag=f"transition order {lang} pair{a['pair']}.{a['part']}", meta={"twin": lang == "JavaScript" and a["part"] == "header" and a["pair"] == 1, "sigtag": f"order:{lang}"}))
    jobs.append(Job("c06.py", "h_add_order", {"which": "add"}, T, 30, tag="insertion order, 3 files"))
    # the order in which exclusion entries reach the matcher must be the order they were written in (a set in between would make it depend on the hash seed; the run uses PYTHONHASHSEED=0)
    jobs.append(Job("c11.py", "h_cli_sources", {}, T, 60, tag="exclusion entries keep their written order (negation entries)", meta={"sigtag": "exclusion-order", "twin": False}))
    # a file's analysis is reused only if its content is unchanged: the checksum covers all of its bytes
    jobs.append(Job("c09.py", "h_checksum", {"pool": ["a.py"], "ncont": 2}, T, 60, tag="checksum covers the whole file", meta={"sigtag": "checksum", "twin": False}))
    # the same code tokens analysed twice in one process in different layouts (baseline scan, then re-laid-out scan with a marker comment): C17's harness, run here for its isolation aspect
    for lang in ("JavaScript", "TypeScript", "Python", "C", "Java"):
        for label in ("two", "three-global"):
            jobs.append(Job("skel_h.py", "h_nocl", {"lang": lang, "tier": "quick", "label": label, "mode": "nocl"}, T, 40, tag=f"same tokens, other layout {lang}/{label}", meta={"twin": False, "sigtag": "relayout"}))
    # S-hash at scan_file level: every single-edit mutant of programs that exercise patterns with several live transitions, identity vs permuted transition order
    from vlib import skel
    for lang in capture.LANG_NAMES:
        have = dict(skel.programs(lang, "quick"))
        have.update(skel.extra_programs(lang))
        for label in ("one-arrow", "one-throws", "two", "one-asyncarrow", "x-arrow-default-arrow", "x-fn-default-arrow"):
            if label not in have or (ctx.quick() and label == "two" and lang not in ("Python", "Java")):
                continue
            for op in ("none", "delete", "dup", "replace", "swap"):
                jobs.append(Job("mut.py", "h_mut", {"lang": lang, "label": label, "op": op, "order": True}, T, 60, tag=f"seed-order {lang}/{label}/{op}", meta={"sigtag": f"hash-seed:{lang}", "twin": False}))
    ctx.bounds["hash seed at scan_file level"] = "every single-edit mutant of arrow / throws / plain programs: outcome under identity vs reversed vs rotated transition order of every DFA state"
    for n in ((2,) if ctx.quick() else (2, 3)):
        for e1 in range(7):
            jobs.append(Job("c06.py", "h_analyze_history", {"which": "history", "fix_n": n, "fix_e1": e1}, T * (1 if n == 2 else 2), 60, tag=f"file-level isolation, history of {n} files, first ext #{e1}", meta={"sigtag": "file-isolation", "twin": e1 == 0}))
    ctx.bounds["file-level isolation"] = "Scanner._analyze_file on a file after every history of 1 (quick) / <= 2 (thorough) earlier files drawn from 7 extensions x 9 texts (same bytes under another language, CRLF, leading blanks, non-UTF-8 bytes and UTF-8 non-ASCII bytes included) equals its stand-alone analysis"
    for c in ((0, 2) if ctx.quick() else (0, 1, 2, 3)):
        for f3 in ((0, 2) if ctx.quick() else (0, 2, 5, 7)):
            jobs.append(Job("c11.py", "h_walk_order", {"cfg": c, "fix_f3": f3}, T, 60, tag=f"traversal order cfg{c} file#{f3}", meta={"sigtag": "walk-order", "twin": f3 == 0 and c == 0}))
    ctx.bounds = {"isolation": f"intervening / first file = every token soup of length {N} over the language alphabet in a small layout pool (same or next line, two columns); B = two canonical programs whose results must equal the generator's ground truth", "transition order": "every state of every captured automaton x every permutation of its <= 4 transitions x every token kind x unbounded value/depth",
                  "insertion order": "all 6 permutations of 3 files, values unbounded", "traversal order": "sorted vs reversed / rotated sibling order over the C11 tree family"}
    ctx.run_xh(jobs + iso)
