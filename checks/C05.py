from checks import soup_common
from vlib.xh import Job

LEVEL = "other"
EXPLANATION = ("Three layers on the real code: (1) pairing units (_build_scopes_from_headers_and_blocks, fold/filter/unfold, _scope_tokens) over SYMBOLIC integer ranges - headers and blocks are "
               "arbitrary ordered/nested ranges with unbounded endpoints; (2) token-soup BMC of scan_file with every C05 clause asserted on the result; (3) _analyze_file with a symbolic measurement list: loc == sum of values.")


AMBIG = ["assumed:ValueError:arrow-pattern ambiguity (C03/C15 known finding)"]


def run(ctx):
    ctx.functions += ["scope_utils._build_scopes_from_headers_and_blocks/_find_scope_blocks_indices/_get_nearest_block/fold_scopes/filter_scopes_nested_functions/unfold_scopes/_scope_tokens", "Scanner.scan_file", "Scanner._analyze_file", "lexer_utils.lex / source_utils.get_newline_indices (position bookkeeping)", "Header.sort_headers", "TokenRange.*"]
    ctx.bounds["pairing units"] = "<= 2 header ranges and <= 3 block ranges, endpoints any integers (unbounded), every ordering and nesting the solver can choose"
    ctx.assumptions += ["upstream contract for the pairing units: headers non-empty, ordered, disjoint; blocks >= 2 tokens, sorted by opener, properly nested or disjoint; a header never straddles a block boundary",
                        "S-lex as in C03 for the soups"]
    ctx.assumptions.append("inputs on which the analysis raises the listed arrow-pattern ambiguity error (C15 / C03 known finding) yield no measurements and are assumed away here")
    ctx.outside += ["soups longer than N", "more headers/blocks per pairing query"]
    T = 240 if ctx.quick() else 600
    jobs = []
    for nest in (True, False):
        for nh, nb in ((2, 3), (2, 2), (1, 3), (2, 1)):
            jobs.append(Job("c05.py", "h_scopes", {"nest": nest, "nh": nh, "nb": nb}, T, 30, tag=f"nest={nest},headers={nh},blocks={nb}", meta={"twin": nh == 2 and nb == 2}))
        jobs.append(Job("c05.py", "h_scopes", {"nest": nest, "nh": 2, "nb": 2, "own": True, "ntok": 8 if ctx.quick() else 10}, T, 30, tag=f"nest={nest},own-tokens", meta={"twin": False}))
    jobs.append(Job("c05.py", "h_loc", {}, T, 30, tag="k<=3"))
    # positions are relative to the FILE: the file-level entry point must report what analysing the file's text reports (leading blank lines, BOM-less, CRLF)
    for e1 in range(7):
        jobs.append(Job("c06.py", "h_analyze_history", {"which": "history", "fix_n": 1, "fix_e1": e1}, T, 60, tag=f"_analyze_file == analysis of the file text, ext #{e1}", meta={"sigtag": "file-level", "twin": e1 == 0}))
    # line numbers are only "within the file" if lexing maps offsets to lines faithfully: the unit contracts of the position bookkeeping (shared with C16)
    jobs.append(Job("c16.py", "h_newlines", {}, T, 30, tag="newline offsets / location_to_index, |code|<=4"))
    for K in (1, 2):
        jobs.append(Job("c16.py", "h_lex", {"K": K, "fixed_kind": True}, T, 30, tag=f"token positions K={K}", meta={"sigtag": "lex"}))
    # quick: Python only (indentation blocks are the delicate case; brace languages are covered by the mutants and by thorough) (C, C++ and C# share all pairing code; TypeScript shares JavaScript's arrow pattern); thorough: all seven, N=3
    plan = {l: 2 for l in ("Python",)} if ctx.quick() else {"Python": 3, "C": 3, "JavaScript": 3, "Java": 2, "TypeScript": 2, "Cpp": 2, "CSharp": 2}
    muts = soup_common.mutation_jobs(ctx, ["two", "stmt-mix", "nested-middle", "nested-two", "class-methods", "x-arrow-then-fn", "x-arrow-encloses-fn"] if ctx.quick() else None, tolerate=AMBIG)
    soups = soup_common.soup_jobs(ctx, "wellformed", plan, framed=True, tolerate=AMBIG)
    # order for the tier's wall budget: the short, diverse conditions (file level, bookkeeping, mutants) first, then the pairing units, the soups last
    short = [j for j in jobs if j.func != "h_scopes"]
    units = [j for j in jobs if j.func == "h_scopes"]
    ctx.run_xh(short + muts + units + soups)
