from vlib.xh import Job

LEVEL = "other"
EXPLANATION = ("One inductive step instead of histories: the REAL scan_command (with _read_cached_report, scan_codebase/scan_path, _scan_file, Codebase.aggregate, ReportWriter/Reader) runs over an in-memory file system "
               "from an ARBITRARY abstract state - every combination of present/absent files with content ids, every cache (absent, or any mix of current / stale / missing entries, same or other version) - "
               "selected by the solver; file analysis is an uninterpreted function with a call recorder. The oracle checks the result against the fresh-scan report, the exact set of analysed paths, and that the "
               "cache left behind satisfies the state invariant again, so the step composes to edit histories of any length (create, modify, delete, rename, swap, touch, exclusion change = arbitrary tree).")


def run(ctx):
    ctx.functions += ["commands.scan.scan_command/_read_cached_report/_is_well_formed", "Scanner.scan_codebase/scan_path/_scan_file/is_excluded/generate_exclude_spec", "Codebase.add_file/aggregate", "ReportWriter.to_json", "ReportReader.from_json/get_report_version", "utils.read_report"]
    ctx.assumptions += ["S-fs (vlib.fsstub) replaces os.walk/open/pathlib in Scanner and scan; S-ui: Console/Live replaced by recorders; S-time/uuid constants",
                        "A-md5: distinct contents have distinct checksums (calculate_checksum stubbed by content id)", "the analysis is a function of (path, content) only - determinism is C06's subject",
                        "state invariant: a cache entry under key p is the analysis of p for SOME content (what any earlier scan wrote), or absent; the cache was written by this or another version"]
    ctx.outside += ["more paths/contents than the pool", "md5 collisions", "real lexing of file contents (contents are identities)", "concurrent scans"]
    T = 300 if ctx.quick() else 900
    jobs = [Job("c09.py", "h_step", {"pool": ["a.py", "d/a.py"], "ncont": 2}, T, 60, tag="2 paths x 2 contents", meta={"sigtag": "cache-step"}),
            Job("c09.py", "h_read_report", {}, T, 30, tag="version guard of report/findings"),
            Job("c09.py", "h_step_altered", {"pool": ["a.py", "d/a.py"], "ncont": 2}, T, 60, tag="cache with an altered (inconsistent) entry", meta={"sigtag": "cache-step:altered"}),
            Job("c09.py", "h_checksum", {"pool": ["a.py"], "ncont": 2}, T, 60, tag="calculate_checksum = md5 of the whole file: 10 sizes x 13 offsets of a one-byte change", meta={"sigtag": "checksum"})]
    ctx.functions.append("common.utils.calculate_checksum (real, over an in-memory binary stream)")
    ctx.bounds = {"checksum": "files of 0..200001 bytes (around 4 KiB / 8 KiB / 64 KiB / 128 KiB block sizes) with one byte changed at 13 offsets: the checksum is the md5 of all bytes, so the change shows",
                  "quick": "2 pool paths (one nested) x {absent, content 0, content 1} x cache {absent | per path: absent / analysis of content 0 / of content 1} x {same, other version}: all 162 states",
                  "altered entries": "same states with the first cached entry altered: functions dropped ([] / {}) or line total changed - such a cache must not be reused",
                  "read_report": "cache file present/absent x version in {missing key, empty, other, running, running+space, 'v'+running}"}
    if ctx.quick():
        for t0 in (-1, 0, 1):
            jobs.append(Job("c09.py", "h_step", {"pool": ["a.py", "d/a.py", "b.js"], "ncont": 2, "fix_t0": t0}, T, 60, tag=f"3 paths x 2 contents, t0={t0}", meta={"sigtag": "cache-step", "twin": False}))
        ctx.bounds["quick, 3 paths"] = "3 pool paths (two languages) x 2 contents: all 3^3 x (1 + 3^3) x 2 states"
    else:
        for t0 in (-1, 0, 1, 2):
            jobs.append(Job("c09.py", "h_step", {"pool": ["a.py", "d/a.py", "b.js"], "ncont": 3, "fix_t0": t0}, T, 60, tag=f"3 paths x 3 contents, t0={t0}", meta={"sigtag": "cache-step", "twin": False}))
        ctx.bounds["thorough"] = "3 pool paths x 3 contents: all 4^3 x (1 + 4^3) x 2 states"
    ctx.run_xh(jobs)
