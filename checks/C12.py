from vlib.xh import Job

LEVEL = "other"
EXPLANATION = ("The real check_command and the real scan_path run over the same in-memory tree (cwd = root) with the shared pipeline stubbed by one deterministic measurement function of the decoded file text; for every solver-chosen "
               "tree member and way of reaching it (file path, parent, grandparent, root relative, root absolute, parent absolute) the rows check prints must be exactly scan's >30 measurements of that file, excluded / hidden / "
               "unsupported files must be skipped as the statement says, and the exit status must match; decoding agreement is decided on symbolic bytes.")


def run(ctx):
    ctx.functions += ["commands.check.check_command/_handle_file_path/check_file", "CheckResult.add/report", "Scanner.scan_path/_scan_file/_read_file/generate_exclude_spec/is_excluded", "utils.format_measurement"]
    ctx.assumptions += ["S-fs as in C11; lex/scan_file (check side) and _analyze_file (scan side) replaced by the same function of the decoded text, so agreement of the shared pipeline itself is C06's determinism",
                        "reference exclusion semantics as proved in C11"]
    ctx.outside += ["working directory different from the root (excluded by the statement)", "trees outside the pool family"]
    T = 300 if ctx.quick() else 600
    jobs = []
    cfgs = (0, 2, 4, 5) if ctx.quick() else (0, 1, 2, 3, 4, 5)
    for c in cfgs:
        for a in (range(6) if (c == 0 or not ctx.quick()) else (0, 1, 3)):      # quick: all six ways of reaching under the built-in exclusions, file / parent / root-relative under the others
            jobs.append(Job("c11.py", "h_check", {"cfg": c, "arg": a, "quiet_fixed": ctx.quick()}, T, 60, tag=f"check cfg{c} reached-as#{a}", meta={"sigtag": "check-vs-scan", "tolerant": True, "twin": c == 0 and a == 0}))
    jobs.append(Job("c03.py", "h_decode", {}, T, 30, tag="decoding: bytes<=3"))
    jobs.append(Job("c11.py", "h_check_real", {"cfg": 0}, T, 60, tag="real pipeline on both sides: 9 sample files (markers, comments, Latin-1, BOM, coding cookie) x 6 ways of reaching", meta={"sigtag": "check-vs-scan:real"}))
    ctx.bounds = {"trees": "as C11 (D1, D2 from 14 directory names, F3 from 13 file names)", "ways of reaching": ["file", "parent", "grandparent", "root-rel", "root-abs", "parent-abs"], "configurations": list(cfgs), "bytes": "every byte string of length <= 3"}
    ctx.run_xh(jobs)
