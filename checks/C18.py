from vlib.xh import Job

LEVEL = "other"
EXPLANATION = ("CrossHair executes the real delta classes, ScanTotals, ScanResultTable (text) and the Markdown printer with the figures of one column as unbounded "
               "solver variables (current and previous value of two languages), reads every rendered cell back through opaque figure markers and compares values in the solver; "
               "the findings printers run with the number of findings, the full flag and repository presence symbolic.")


def run(ctx):
    ctx.functions += ["LanguageTotalsDelta.*", "ScanTotalsDelta.*", "ScanTotals.languages_totals/total_*", "ScanResultTable.__init__/_populate", "format_text.print_report/print_totals", "format_markdown.print_report/print_totals/_print_totals", "commands.report.report_command", "commands.findings.findings_command", "utils.read_report/make_report_path",
                      "format_text.print_findings", "format_markdown.print_findings/_print_findings_with(out)_repository", "Report.all_report_units_sorted_by_length_asc"]
    ctx.bounds = {"figures": "current/previous value of two languages for one column at a time: every non-negative int (unbounded)", "language sets": "same / one added / one removed / single language / no comparison report / comparison report without any language",
                  "findings": "0..25 findings, full flag, with/without repository"}
    ctx.assumptions += ["S-fmt: int.__format__ with 'n'/'+n' renders the value it is given (digits and locale grouping trusted)", "S-ui: recording console; table cells read from rich Table objects"]
    ctx.outside += ["several figure columns symbolic at once", "glyphs, wrapping, terminal width", "report_command / findings_command file handling (see C09 for read_report)"]
    T = 150 if ctx.quick() else 600
    jobs = []
    cols = ["files", "functions", "loc", "hard_to_maintain", "unmaintainable"]
    scens = ["same", "added", "removed", "single", "nodiff", "prevempty"]
    for c in cols:
        for s in scens:
            if ctx.quick() and s in ("single", "nodiff", "prevempty") and c not in ("loc", "files"):
                continue
            jobs.append(Job("c18.py", "h_overview", {"column": c, "scenario": s}, T, 30, tag=f"{c}/{s}", meta={"sigtag": f"overview:{s}"}))
    jobs.append(Job("c18.py", "h_findings", {}, T, 30, tag="n<=25"))
    jobs.append(Job("c18.py", "h_commands", {}, T, 30, tag="report_command / findings_command wiring"))
    ctx.run_xh(jobs)
