import itertools
import random

from vlib.xh import Job

LEVEL = "other"
EXPLANATION = ("CrossHair executes the real Codebase.add_file / add_folder / aggregate, LanguageTotals.add, ScanTotals.total_* and SourceFileEntry for each path-shape of a family, with one measurement value in each of two files "
               "and the insertion order as solver variables, and compares totals, file profiles, folder profiles and the folder tree with an oracle computed from the path strings alone.")

POOL = ["a.py", "b.py", "a/a.py", "a/b.py", "b/a.py", "a/b/a.py", "a/a/b.py", "b/b/b.py", "a/b/b.js", "a/b.java", "a.js"]
LANG = {"py": "Python", "js": "JavaScript", "java": "Java"}


def run(ctx):
    ctx.functions += ["Scanner.scan_codebase (ScanTotals fed file by file)", "ScanResultTable", "Codebase.add_file/add_folder/aggregate", "LanguageTotals.add", "ScanTotals.total_*", "SourceFileEntry.__init__/profile", "SourceFolder.add_file/add_folder", "utils.make_profile/make_count_profile/merge_profiles/get_parent_folder/get_basename"]
    rnd = random.Random(ctx.seed)
    shapes = []
    for k in (1, 2, 3, 4):
        combos = list(itertools.combinations(POOL, k))
        if ctx.quick():
            rnd.shuffle(combos)
            combos = combos[: {1: 4, 2: 20, 3: 30, 4: 30}[k]]
        shapes += combos
    fixed = [("a.py", "a/a.py", "a/a/b.py", "a/b/a.py"), ("a/b.py", "b/a.py", "a/b/a.py"), ("a/b/a.py",), ("a.py", "a.js", "a/b.java", "a/b/b.js")]
    shapes = fixed + [s for s in shapes if s not in fixed]
    ctx.bounds = {"path shapes": f"{len(shapes)} sets of <= 4 relative paths (depth <= 3) from the pool {POOL}" + (" (seeded sample + fixed core)" if ctx.quick() else " (all)"),
                  "values": "one measurement value in each of two files: any integers >= 1 (unbounded); all other values concrete", "insertion order": "identity / reverse / rotation (solver-chosen)"}
    ctx.assumptions += ["loc of a file entry equals the sum of its measurement values (what the scanner produces; C05)"]
    ctx.outside += ["more than 4 files or depth 3 per query", "paths with empty components or trailing separators (scan never produces them)", "aggregate() called twice on the same codebase"]
    T = 120 if ctx.quick() else 600
    jobs = []
    for s in shapes:
        paths = list(s)
        n = len(paths)
        perms = [list(range(n))]
        if n > 1:
            perms += [list(reversed(range(n))), list(range(1, n)) + [0]]
        sym = [0, n - 1] if n > 1 else [0]
        jobs.append(Job("c07.py", "h_codebase", {"paths": paths, "langs": [LANG[p.rsplit(".", 1)[1]] for p in paths], "sym": sym, "perms": perms}, T, 30, tag="+".join(paths), meta={"twin": len(jobs) < 4, "sigtag": "codebase"}))
    # the totals a scan DISPLAYS while it runs (ScanTotals fed by scan_codebase) are those of the codebase being scanned - also for the second scan of a process
    jobs.append(Job("c09.py", "h_step", {"pool": ["a.py", "d/a.py"], "ncont": 2}, T * 3, 60, tag="scan_command twice in one process: displayed totals == scanned codebase", meta={"sigtag": "displayed-totals", "twin": False}))
    ctx.bounds["displayed totals"] = "the real scan_command (in-memory FS) from every (tree, cache) state of 2 paths x 2 contents, followed by a second scan in the same process"
    ctx.run_xh(jobs)
