from vlib import xh
from vlib.xh import Job

LEVEL = "fault_enumeration"
EXPLANATION = ("Fault enumeration driven by the solver over the real scan_command on the in-memory file system: the cache document a previous scan wrote (real ReportWriter, three report shapes, pretty and compact) is cut at EVERY "
               "character offset (the offset is a solver variable), replaced by non-JSON / wrong-shape texts, or has the key at every JSON path deleted or its value replaced by values of the other JSON types; cache directory with / "
               "without file and marker files. Oracle: the scan completes, reports exactly the fresh-scan result, leaves a complete valid cache (marker files included), and a second scan on the state left behind succeeds and reuses everything.")


def run(ctx):
    ctx.functions += ["commands.scan.scan_command/_read_cached_report/_is_well_formed", "ReportReader.from_json", "Scanner.scan_path/_scan_file", "ReportWriter.to_json"]
    ctx.assumptions += ["S-fs, S-ui, S-time/uuid, A-md5 as in C09", "a crash during the cache write leaves a prefix of the new document (write_text is one sequential write); torn pages / reordered blocks are outside"]
    ctx.outside += ["documents larger than the three shapes", "OS-level partial writes other than prefix truncation"]
    r = xh.call("c09.py", "_sizes", {"kind": "truncate"}, wall_timeout=120)
    if "value" not in r:
        ctx.harness_error("sizes", str(r)[:800])
        return
    ndoc = r["value"]["ndoc"]
    T = 300 if ctx.quick() else 900
    jobs = []
    CH = 120
    n_off = 0
    for di, n in enumerate(ndoc):
        step = 1
        for lo in range(0, n + 1, CH):
            hi = min(n, lo + CH - 1)
            if ctx.quick() and di == 0 and (lo // CH) % 2 == 1:
                continue   # quick: every offset of the two smaller documents, every other 120-offset window of the largest
            n_off += 2 * (hi - lo + 1)
            jobs.append(Job("c09.py", "h_damaged", {"kind": "truncate", "lo": lo, "hi": hi, "doc": di}, T, 60, tag=f"truncate doc#{di} offsets {lo}..{hi}", meta={"twin": lo == 0 and di == 2, "sigtag": "truncate"}))
    for k in ("nonjson", "structure", "dir"):
        jobs.append(Job("c09.py", "h_damaged", {"kind": k}, T, 60, tag=k, meta={"sigtag": k}))
    ctx.bounds = {"truncation": f"{n_off} (document, offset, pretty/compact) crash points: documents of {ndoc} characters", "non-JSON texts": "17 texts incl. non-UTF-8 bytes, an over-long number literal, deep nesting, an overflowing float", "structural faults": "every JSON path of two documents x {delete, replace by null / int / string / list / object / bool / float}",
                  "directory states": "dir absent | dir x marker files x cache file"}
    ctx.run_xh(jobs)
    ctx.extra["exhaustive"] = not ctx.quick()
