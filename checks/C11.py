import time

from vlib.xh import Job

LEVEL = "other"
EXPLANATION = ("(1) E2: every regex that the real generate_exclude_spec compiles (built-in list + configured + command-line + .gitignore entries) is translated from its Python regex syntax tree to a z3 regex and proved "
               "equivalent, for relative paths of ANY length, to an independently written reference regex of its gitignore pattern class; hidden-ness likewise. (2) E1: the real scan_path runs over an in-memory file system "
               "for every solver-chosen tree of a pool-based family x exclusion configuration x way of naming the root; keys, languages, checksums and the recorded _analyze_file calls must equal the reference selection.")


def e2(ctx):
    import z3
    from pathlib import Path
    from vlib import re2z3
    import codelimit.common.Scanner as scn
    from codelimit.common.Configuration import Configuration
    sys_path_hack = None
    import importlib.util, os
    spec_ = importlib.util.spec_from_file_location("vh_c11_ref", os.path.join(os.path.dirname(os.path.dirname(os.path.abspath(__file__))), "harness", "c11.py"))
    os.environ["VERIF_PARAM"] = "{}"
    h = importlib.util.module_from_spec(spec_)
    spec_.loader.exec_module(h)
    AC = z3.AllChar(z3.ReSort(z3.StringSort()))
    comp = z3.Plus(z3.Intersect(AC, z3.Complement(z3.Union(z3.Re("/"), z3.Re("\n"), z3.Re("\x00")))))
    relpath = z3.Concat(comp, z3.Star(z3.Concat(z3.Re("/"), comp)))
    p = z3.String("p")
    for name in ("tests", "build", "node_modules", "venv"):
        if name not in scn.DEFAULT_EXCLUDES:
            ctx.violation(f"builtin-missing:{name}", f"the built-in exclusion {name!r} named by the statement is no longer in DEFAULT_EXCLUDES", {"missing": name})
    saved = list(Configuration.exclude)
    try:
        for ci, cfg in enumerate(h.CFGS):
            Configuration.exclude[:] = cfg["config"] + cfg["option"]
            srcs = list(scn.DEFAULT_EXCLUDES) + cfg["config"] + cfg["option"]
            real_read = scn._read_gitignore
            scn._read_gitignore = lambda root, _c=cfg: _c["gitignore"].splitlines() if _c["gitignore"] is not None else None
            try:
                spec = scn.generate_exclude_spec(Path("/nonexistent-root"))
            finally:
                scn._read_gitignore = real_read
            if cfg["gitignore"] is not None:
                srcs += [ln for ln in cfg["gitignore"].splitlines() if ln]     # pathspec drops empty lines before compiling
            pats = list(spec.patterns)
            if len(pats) != len(srcs):
                ctx.violation(f"spec-size:cfg{ci}", f"exclude spec has {len(pats)} patterns for {len(srcs)} configured entries (an exclusion source is dropped or duplicated)", {"cfg": cfg})
                continue
            for pat, src in zip(pats, srcs):
                ident = f"E2:cfg{ci}:{src!r}"
                neg = src.startswith("!")
                if ci > 0 and src in scn.DEFAULT_EXCLUDES:
                    continue    # built-ins are decided once (cfg0)
                if pat.regex is None:
                    if src.strip() == "" or src.startswith("#"):
                        ctx.discharge(ident, 0, 0.0)
                    else:
                        ctx.violation(f"entry-ignored:{src}", f"exclusion entry {src!r} compiles to no pattern", {"entry": src})
                    continue
                t0 = time.time()
                s = z3.Solver()
                s.set("timeout", 30000)
                s.add(z3.InRe(p, relpath))
                try:
                    real_re = re2z3.translate(pat.regex.pattern)
                    ref_re = re2z3.translate("^" + h.ref_regex(src[1:] if neg else src) + "$")
                except re2z3.Unsupported as e:
                    ctx.inconclusive_(ident, f"regex construct not translated: {e}")
                    continue
                if bool(pat.include) == neg:
                    ctx.violation(f"entry-polarity:{src}", f"exclusion entry {src!r} compiled with include={pat.include}", {"entry": src})
                    continue
                s.add(z3.Xor(z3.InRe(p, real_re), z3.InRe(p, ref_re)))
                r = str(s.check())
                dt = time.time() - t0
                if r == "unsat":
                    ctx.discharge(ident, 0, dt, {"query": ident, "pathspec_regex": pat.regex.pattern, "reference": h.ref_regex(src), "result": "unsat: equal on all relative paths"} if len(ctx.samples) < 4 else None)
                elif r == "sat":
                    w = s.model()[p].as_string()
                    import re as _re
                    real_m = bool(pat.regex.match(w))
                    ref_m = bool(_re.fullmatch(h.ref_regex(src[1:] if neg else src), w))
                    if real_m != ref_m:
                        ctx.violation(f"exclusion-semantics:{h.classify(src)}", f"entry {src!r}: path {w!r} is {'matched' if real_m else 'not matched'} by the compiled spec but {'is' if ref_m else 'is not'} excluded by the reference semantics", {"entry": src, "path": w}, dt)
                    else:
                        ctx.harness_error(ident, f"z3 witness {w!r} does not separate the two regexes when run with re")
                else:
                    ctx.inconclusive_(ident, r, dt)
    finally:
        Configuration.exclude[:] = saved


def run(ctx):
    ctx.functions += ["__main__.scan / __main__.check (exclusion option handling)", "Configuration.load", "Scanner.scan_path", "Scanner.generate_exclude_spec/_read_gitignore/is_excluded", "Scanner._scan_file", "Scanner.DEFAULT_EXCLUDES (regexes compiled by pathspec, translated to z3)", "languages.Languages.by_name"]
    ctx.assumptions += ["pathspec's match_file = 'some include-pattern's regex matches the normalised relative path' (last-match-wins with include-only patterns)", "S-fs: os.walk/open/pathlib/relpath replaced by vlib.fsstub (walk top-down, pruning honoured)",
                        "get_lexer_for_filename is real Pygments, called on the concrete pool names only", "checksums are stubbed as a function of content (A-md5)"]
    ctx.outside += ["gitignore features outside the five classes (negation, **, character classes, escapes)", "trees outside the pool family", "symbolic links"]
    e2(ctx)
    T = 300 if ctx.quick() else 600
    jobs = []
    combos = [(0, 0), (0, 1), (1, 0), (1, 2), (2, 3), (2, 5), (3, 4), (4, 0), (5, 0), (5, 1)] if ctx.quick() else [(c, r) for c in range(6) for r in range(6)]
    for c, r in combos:
        jobs.append(Job("c11.py", "h_scan", {"cfg": c, "root": r, "fix_f1": 0}, T, 60, tag=f"scan cfg{c} root#{r}", meta={"sigtag": "scan-selection", "twin": c == 0 and r == 0}))
    for f1 in ((1, 3, 5, 12) if ctx.quick() else range(1, 15)):
        jobs.append(Job("c11.py", "h_scan", {"cfg": 1, "root": 0, "fix_f1": f1}, T, 60, tag=f"scan cfg1 root#0 top-level-file#{f1}", meta={"sigtag": "scan-selection", "twin": False}))
    for f1 in (4, 13, 14):      # two extension-less names in one tree (one of them maps to a language by NAME): per-name lexer lookup, no per-extension shortcut
        jobs.append(Job("c11.py", "h_scan", {"cfg": 0, "root": 0, "fix_f1": f1}, T, 60, tag=f"scan cfg0 root#0 top-level-file#{f1}", meta={"sigtag": "scan-selection", "twin": False}))
    for f1 in (2, 9, 0):        # byte-identical files whose names map to different languages (n.js / c.c / m.py at the top vs every deep file)
        jobs.append(Job("c11.py", "h_scan", {"cfg": 0, "root": 0, "fix_f1": f1, "dup": True}, T, 60, tag=f"scan cfg0 root#0 identical bytes, top-level-file#{f1}", meta={"sigtag": "scan-selection", "twin": False}))
    jobs.append(Job("c11.py", "h_cli_sources", {}, T, 60, tag="exclusion sources through the CLI functions", meta={"sigtag": "exclusion-sources"}))
    ctx.bounds["sources"] = "the real __main__.scan / __main__.check with 3 option lists x 4 .codelimit.yml contents x 2 .gitignore contents (Configuration.load real, over the in-memory FS)"
    ctx.bounds.update({"E2": "path strings of any length (z3 string variable); one query per exclusion entry of 4 configurations", "trees": "main.py + top-level file + <D1>/m.py + <D1>/<D2>/<F3>, D1,D2 from 14 directory names, F from 13 file names (solver-chosen)",
                  "configurations": "built-ins only | config+option+.gitignore mixes over the five pattern classes plus root-anchored /name (5 configurations)", "roots": "absolute, '.', '..' from a subdirectory, relative from the parent, absolute with '..', relative with '..' from a sibling"})
    ctx.run_xh(jobs)
