from checks import skel_common

LEVEL = "other"
EXPLANATION = ("Metamorphic check at token level: for every skeleton CrossHair executes the real scan_file on the canonical token stream transformed by simultaneous insertions "
               "(comment-only lines, trailing line/block comments, whitespace tokens, any number of blank lines at up to 10 boundaries, all counts solver variables) and requires the result to equal "
               "the baseline result of the untransformed stream with every line number shifted by exactly the lines inserted above it.")


def run(ctx):
    ctx.functions += ["Scanner.scan_file", "source_utils.filter_tokens", "Token.is_comment/is_whitespace", "scope_utils.count_lines", "languages.Python._get_token_lines/extract_blocks", "scope_utils.* (as C01)"]
    ctx.outside += ["that Pygments emits the same code tokens after an insertion (S-lex assumption; the zero-length-token artefact that broke it was repaired, see known_findings.json)", "vendored corpus of real-world sources"]
    skel_common.run_c04(ctx)
