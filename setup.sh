#!/bin/sh
# Builds /verif/.venv: an overlay venv of /venv's python that sees /venv's site-packages (the
# repository's own dependencies) and /repo, plus crosshair-tool / z3-solver / cvc5 from the offline wheelhouse.
set -e
cd "$(dirname "$0")"
V="$(pwd)/.venv"
if [ -x "$V/bin/python" ] && "$V/bin/python" -c "import crosshair, z3, codelimit" 2>/dev/null; then
  echo "setup: $V already usable"; exit 0
fi
rm -rf "$V"
/venv/bin/python -m venv "$V"
SP=$("$V/bin/python" -c "import sysconfig; print(sysconfig.get_paths()['purelib'])")
printf '%s\n%s\n' "/venv/lib/python3.12/site-packages" "/repo" > "$SP/verif_overlay.pth"
PIP_NO_INDEX=1 "$V/bin/python" -m pip install --quiet --no-index --find-links /opt/veriftools/wheels crosshair-tool z3-solver cvc5 jsonschema
"$V/bin/python" -c "import crosshair, z3, cvc5, codelimit, pygments, pathspec, rich, typer; print('setup: ok', z3.get_version_string())"
