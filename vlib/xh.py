"""Parallel CrossHair job runner: one subprocess (vlib.xh_worker) per harness condition."""
import concurrent.futures as cf
import json
import os
import shutil
import subprocess
import sys
import tempfile
import time
from dataclasses import dataclass, field
from typing import Any, Optional

ROOT = os.path.dirname(os.path.dirname(os.path.abspath(__file__)))
HARNESS = os.path.join(ROOT, "harness")


@dataclass
class Job:
    module: str                 # file name under /verif/harness
    func: str
    param: Any = None
    cond_timeout: float = 30.0  # CPU seconds for the whole condition
    path_timeout: float = 10.0  # CPU seconds per path
    witness: bool = False       # reachability twin: a counterexample is EXPECTED
    tag: str = ""               # human readable instance name
    meta: dict = field(default_factory=dict)

    def ident(self):
        return f"{self.module}:{self.func}[{self.tag}]" + ("#witness" if self.witness else "")


@dataclass
class Result:
    job: Job
    status: str                 # confirmed | refuted | inconclusive | error
    detail: str = ""
    args: Optional[dict] = None
    num_paths: int = 0
    wall: float = 0.0
    raw: Any = None


def _env():
    env = dict(os.environ)
    # VERIF_REPO (development aid): analyse another checkout than /repo - it is put first on the path so `import codelimit` resolves there
    repo = env.get("VERIF_REPO")
    env["PYTHONPATH"] = (repo + os.pathsep if repo else "") + ROOT + os.pathsep + env.get("PYTHONPATH", "")
    env.setdefault("PYTHONHASHSEED", "0")
    env["PYTHONDONTWRITEBYTECODE"] = "1"
    return env


def _call_worker(mode: str, payload: dict, wall_timeout: float, scratch: str):
    fd, path = tempfile.mkstemp(suffix=".json", dir=scratch)
    with os.fdopen(fd, "w") as f:
        json.dump(payload, f)
    try:
        p = subprocess.run(
            [sys.executable, "-m", "vlib.xh_worker", mode, path],
            capture_output=True, text=True, timeout=wall_timeout, env=_env(), cwd=ROOT,
        )
    except subprocess.TimeoutExpired:
        return {"worker_error": "wall timeout"}
    finally:
        try:
            os.unlink(path)
        except OSError:
            pass
    out = p.stdout
    k = out.rfind("@@RESULT@@")
    if k < 0:
        return {"worker_error": f"no result (rc={p.returncode})", "tb": (p.stderr or "")[-3000:]}
    return json.loads(out[k + len("@@RESULT@@"):].strip())


def _payload(job: Job):
    param = job.param
    if isinstance(param, dict):
        param = dict(param)
        param["__witness__"] = job.witness
    else:
        param = {"value": param, "__witness__": job.witness}
    return {
        "module": os.path.join(HARNESS, job.module),
        "func": job.func,
        "param": param,
        "cond_timeout": job.cond_timeout,
        "path_timeout": job.path_timeout,
    }


DEADLINE = None     # absolute time after which no further condition is started (set by Ctx from the tier's wall budget); unstarted ones are inconclusive


def _run_one(job: Job, scratch: str) -> Result:
    t0 = time.time()
    if DEADLINE is not None and t0 > DEADLINE and not job.witness:
        return Result(job, "inconclusive", "not started: the tier's wall-time budget was used up")
    res = _call_worker("analyze", _payload(job), job.cond_timeout * 3 + 60, scratch)
    wall = time.time() - t0
    if "worker_error" in res:
        st = "inconclusive" if res["worker_error"] == "wall timeout" else "error"
        return Result(job, st, res["worker_error"] + " " + res.get("tb", "")[-800:], wall=wall, raw=res)
    msgs = res["messages"]
    n = res.get("num_paths", 0)
    bad = [m for m in msgs if m["state"] in ("post_fail", "exec_err", "post_err")]
    if bad:
        m = bad[0]
        return Result(job, "refuted", m["message"], m["args"], n, wall, res)
    if any(m["state"] == "syntax_err" for m in msgs) or not msgs:
        return Result(job, "error", json.dumps(msgs)[:800], None, n, wall, res)
    if all(m["state"] == "confirmed" for m in msgs):
        return Result(job, "confirmed", "Confirmed over all paths", None, n, wall, res)
    return Result(job, "inconclusive", "; ".join(m["state"] + ": " + m["message"] for m in msgs)[:800], None, n, wall, res)


def run_jobs(jobs, nproc: int = 16, progress=None):
    scratch = tempfile.mkdtemp(prefix="verif-xh-")
    results = [None] * len(jobs)
    try:
        with cf.ThreadPoolExecutor(max_workers=nproc) as ex:
            futs = {ex.submit(_run_one, j, scratch): i for i, j in enumerate(jobs)}
            for fut in cf.as_completed(futs):
                i = futs[fut]
                results[i] = fut.result()
                if progress:
                    progress(results[i])
    finally:
        shutil.rmtree(scratch, ignore_errors=True)
    return results


def replay(job: Job, args: dict, wall_timeout: float = 300.0):
    scratch = tempfile.mkdtemp(prefix="verif-xh-")
    try:
        payload = _payload(job)
        payload["args"] = args
        return _call_worker("replay", payload, wall_timeout, scratch)
    finally:
        shutil.rmtree(scratch, ignore_errors=True)


def call(module: str, func: str, param=None, args=None, wall_timeout: float = 600.0):
    """Run harness-module function `func(**args)` in a fresh worker process (it may drive CrossHair itself); returns its JSON value."""
    scratch = tempfile.mkdtemp(prefix="verif-xh-")
    try:
        payload = {"module": os.path.join(HARNESS, module), "func": func, "param": param if isinstance(param, dict) else {"value": param}, "args": args or {}}
        return _call_worker("call", payload, wall_timeout, scratch)
    finally:
        shutil.rmtree(scratch, ignore_errors=True)
