"""Pattern syntax trees for C13/C14: enumeration, conversion to codelimit expressions, an independent
Brzozowski-derivative reference matcher, and translation to z3 regexes. Shares no code with codelimit's NFA/DFA engine.

Tree: ("atom", i) | ("seq", p, q) | ("alt", p, q) | ("opt", p) | ("star", p) | ("plus", p); letters are ints 0..2, 3 = a letter no atom matches.
"""
import functools

UNARY = ("opt", "star", "plus")
BINARY = ("seq", "alt")


@functools.lru_cache(maxsize=None)
def trees(k: int, natoms: int = 3):
    """All trees with exactly k operators."""
    if k == 0:
        return tuple(("atom", i) for i in range(natoms))
    out = []
    for op in UNARY:
        for t in trees(k - 1, natoms):
            out.append((op, t))
    for op in BINARY:
        for a in range(k):
            for l in trees(a, natoms):
                for r in trees(k - 1 - a, natoms):
                    out.append((op, l, r))
    return tuple(out)


def atoms_in_order(t, acc=None):
    acc = [] if acc is None else acc
    if t[0] == "atom":
        if t[1] not in acc:
            acc.append(t[1])
    else:
        for c in t[1:]:
            atoms_in_order(c, acc)
    return acc


def canonical(t):
    """True iff atoms are first used in the order 0,1,2 (one representative per renaming of letters)."""
    o = atoms_in_order(t)
    return o == list(range(len(o)))


def all_trees(maxk: int, natoms: int = 3, canon=True):
    out = []
    for k in range(maxk + 1):
        for t in trees(k, natoms):
            if not canon or canonical(t):
                out.append(t)
    return out


def show(t):
    if t[0] == "atom":
        return "abc"[t[1]]
    if t[0] == "seq":
        return f"({show(t[1])} {show(t[2])})"
    if t[0] == "alt":
        return f"({show(t[1])}|{show(t[2])})"
    return f"{show(t[1])}{ {'opt': '?', 'star': '*', 'plus': '+'}[t[0]]}"


def nullable(t):
    k = t[0]
    if k == "atom":
        return False
    if k in ("opt", "star"):
        return True
    if k == "plus":
        return nullable(t[1])
    if k == "seq":
        return nullable(t[1]) and nullable(t[2])
    return nullable(t[1]) or nullable(t[2])


def to_expression(t):
    """The codelimit expression (list of atoms / Operator objects) for a tree."""
    from codelimit.common.gsm.operator.OneOrMore import OneOrMore
    from codelimit.common.gsm.operator.Optional import Optional
    from codelimit.common.gsm.operator.Union import Union
    from codelimit.common.gsm.operator.ZeroOrMore import ZeroOrMore

    def lst(t):
        k = t[0]
        if k == "atom":
            return [t[1]]
        if k == "seq":
            return lst(t[1]) + lst(t[2])
        if k == "alt":
            return [Union(lst(t[1]), lst(t[2]))]
        if k == "opt":
            return [Optional(lst(t[1]))]
        if k == "star":
            return [ZeroOrMore(lst(t[1]))]
        return [OneOrMore(lst(t[1]))]

    return lst(t)


# --------------------------------------------------------------------------- derivative reference (regexes as hashable tuples)
EMPTY = ("empty",)   # matches nothing
EPS = ("eps",)       # matches the empty word


def _seq(a, b):
    if a == EMPTY or b == EMPTY:
        return EMPTY
    if a == EPS:
        return b
    if b == EPS:
        return a
    return ("seq", a, b)


def _alt(a, b):
    if a == EMPTY:
        return b
    if b == EMPTY:
        return a
    if a == b:
        return a
    return ("alt", a, b)


def rnullable(r):
    k = r[0]
    if k == "empty" or k == "atom":
        return False
    if k == "eps" or k == "opt" or k == "star":
        return True
    if k == "plus":
        return rnullable(r[1])
    if k == "seq":
        return rnullable(r[1]) and rnullable(r[2])
    return rnullable(r[1]) or rnullable(r[2])


def deriv(r, x):
    """Brzozowski derivative of r by letter x (x may be a symbolic int: the only operation on it is ==)."""
    k = r[0]
    if k in ("empty", "eps"):
        return EMPTY
    if k == "atom":
        return EPS if x == r[1] else EMPTY
    if k == "alt":
        return _alt(deriv(r[1], x), deriv(r[2], x))
    if k == "seq":
        d = _seq(deriv(r[1], x), r[2])
        if rnullable(r[1]):
            return _alt(d, deriv(r[2], x))
        return d
    if k == "opt":
        return deriv(r[1], x)
    if k == "star":
        return _seq(deriv(r[1], x), r)
    # plus: r1 r1*
    return _seq(deriv(r[1], x), ("star", r[1]))


def ref_match(t, w):
    r = t
    for x in w:
        r = deriv(r, x)
        if r == EMPTY:
            return False
    return rnullable(r)


def ref_starts_with(t, w):
    """Length of the shortest non-empty prefix of w in L(t), or None."""
    r = t
    for i, x in enumerate(w):
        r = deriv(r, x)
        if r == EMPTY:
            return None
        if rnullable(r):
            return i + 1
    return None


def ref_greedy(t, w, s):
    """Greedy run from position s: consume while the residual language is non-empty; returns end e > s if the run
    stops (stuck or end of input) in an accepting configuration, else None."""
    r = t
    i = s
    n = len(w)
    while i < n:
        d = deriv(r, w[i])
        if d == EMPTY:
            break
        r = d
        i += 1
    if i > s and rnullable(r):
        return i
    return None


def ref_longest(t, w, s):
    """End of the longest word of L(t) starting at s (non-empty), or None."""
    r = t
    best = None
    for i in range(s, len(w)):
        r = deriv(r, w[i])
        if r == EMPTY:
            break
        if rnullable(r):
            best = i + 1
    return best


# --------------------------------------------------------------------------- z3
def to_z3(t):
    import z3
    k = t[0]
    if k == "atom":
        return z3.Re("abcd"[t[1]])
    if k == "seq":
        return z3.Concat(to_z3(t[1]), to_z3(t[2]))
    if k == "alt":
        return z3.Union(to_z3(t[1]), to_z3(t[2]))
    if k == "opt":
        return z3.Option(to_z3(t[1]))
    if k == "star":
        return z3.Star(to_z3(t[1]))
    return z3.Plus(to_z3(t[1]))
