"""Per-run context: obligations bookkeeping, violation triage (replay + known findings), evidence writer."""
import json
import os
import re
import subprocess
import time

from . import xh

ROOT = xh.ROOT
KNOWN = os.path.join(ROOT, "known_findings.json")
EXIT_OK, EXIT_VIOLATION, EXIT_HARNESS = 0, 1, 3


def repo_head():
    try:
        h = subprocess.run(["git", "-C", "/repo", "rev-parse", "--short", "HEAD"], capture_output=True, text=True).stdout.strip()
        d = subprocess.run(["git", "-C", "/repo", "status", "--porcelain", "--untracked-files=no"], capture_output=True, text=True).stdout.strip()
        return h + ("+dirty" if d else "")
    except Exception:
        return "unknown"


class Ctx:
    def __init__(self, prop: str, tier: str, seed: int):
        self.prop, self.tier, self.seed = prop, tier, seed
        self.t0 = time.time()
        self.nproc = int(os.environ.get("VERIF_NPROC", "16"))
        # wall budget of one run: conditions not started when it is used up are reported inconclusive (never discharged)
        self.budget = float(os.environ.get("VERIF_BUDGET_S", "0") or 0) or (None if tier == "quick" else 1200.0)
        xh.DEADLINE = (time.time() + self.budget) if self.budget else None
        self.functions = []        # real functions encoded / executed symbolically
        self.bounds = {}
        self.assumptions = []
        self.outside = []
        self.obligations = 0
        self.discharged = 0
        self.inconclusive = []
        self.violations = []       # unlisted, reproduced
        self.known_hits = []
        self.harness_errors = []
        self.samples = []
        self.paths = 0
        self.solver_s = 0.0
        self.queries = 0
        self.distinct = set()
        self.notes = []
        self.extra = {}
        with open(KNOWN) as f:
            self.known = json.load(f)["findings"]
        self._replay_n = 0

    # ------------------------------------------------------------------ bookkeeping
    def quick(self):
        return self.tier == "quick"

    def log(self, *a):
        print(*a, flush=True)

    def sample(self, s):
        if len(self.samples) < 12:
            self.samples.append(s)

    def discharge(self, ident, paths=0, secs=0.0, sample=None):
        self.obligations += 1
        self.discharged += 1
        self.queries += 1
        self.paths += paths
        self.solver_s += secs
        self.distinct.add(ident)
        if sample is not None:
            self.sample(sample)

    def inconclusive_(self, ident, why, secs=0.0):
        self.obligations += 1
        self.queries += 1
        self.solver_s += secs
        self.inconclusive.append({"id": ident, "why": why[:300]})
        self.log(f"INCONCLUSIVE {ident}: {why[:200]}")

    def harness_error(self, ident, why):
        self.harness_errors.append({"id": ident, "why": why[:1500]})
        if len(self.harness_errors) <= 5:
            self.log(f"HARNESS-ERROR {ident}: {why[:1500]}")
        else:
            self.log(f"HARNESS-ERROR {ident}: {why[:150]}")

    # ------------------------------------------------------------------ violations
    def _known(self, sig):
        for e in self.known:
            if e.get("status") == "finding" and e.get("property") == self.prop and re.fullmatch(e["signature"], sig):
                return e
        return None

    def violation(self, sig: str, what: str, replay: dict, secs=0.0):
        """A counterexample that has been reproduced against the real code."""
        self.obligations += 1
        self.queries += 1
        self.solver_s += secs
        self.distinct.add("violation:" + sig)
        e = self._known(sig)
        if e is not None:
            first = not any(k["entry"] == e["signature"] for k in self.known_hits)
            if not any(k["signature"] == sig for k in self.known_hits):
                self.known_hits.append({"signature": sig, "entry": e["signature"], "what": e["what"], "instance": what[:400]})
            if first:
                self.log(f"KNOWN-FINDING: property={self.prop} {e['what']} [sig={sig}]")
            return False
        self._replay_n += 1
        os.makedirs(os.path.join(ROOT, "replays"), exist_ok=True)
        path = os.path.join(ROOT, "replays", f"{self.prop}-{self._replay_n}.json")
        with open(path, "w") as f:
            json.dump({"property": self.prop, "signature": sig, "what": what, "replay": replay, "repo": repo_head()}, f, indent=1, default=str)
        self.violations.append({"signature": sig, "what": what[:600], "replay": path})
        self.log(f"VIOLATION property={self.prop} replay={path}")
        self.log(f"  signature={sig}\n  {what[:600]}")
        return True

    # ------------------------------------------------------------------ CrossHair jobs
    def run_xh(self, jobs, with_twins=True):
        """Run harness conditions (plus a reachability twin each); triage the outcomes. Returns results of the main jobs."""
        alljobs = list(jobs)
        if with_twins:
            for j in jobs:
                if j.meta.get("twin", True):
                    alljobs.append(xh.Job(j.module, j.func, j.param, min(j.cond_timeout, 40.0), j.path_timeout, True, j.tag, dict(j.meta)))
        t = time.time()
        done = [0]

        def progress(r):
            done[0] += 1
            if done[0] % 25 == 0:
                self.log(f"  .. {done[0]}/{len(alljobs)} conditions, {time.time() - t:.0f}s")

        results = xh.run_jobs(alljobs, self.nproc, progress)
        main = []
        self._retry = []
        self._collect(results, main)
        rounds = 0
        while self._retry and rounds < 4:
            rounds += 1
            again, self._retry = self._retry, []
            self._collect(xh.run_jobs(again, self.nproc), main)
        return main

    def _collect(self, results, main):
        for r in results:
            j = r.job
            if j.witness:
                if r.status == "refuted":
                    continue  # reachable: good
                if r.status == "confirmed" or "pre_unsat" in r.detail:
                    self.harness_error(j.ident(), "reachability twin not violated (harness vacuous): " + r.detail)
                elif r.status == "error":
                    self.harness_error(j.ident(), r.detail)
                else:
                    self.notes.append(f"twin inconclusive: {j.ident()}")
                continue
            main.append(r)
            self.paths += r.num_paths
            self._slow = sorted(getattr(self, "_slow", []) + [(round(r.wall, 1), j.ident())], reverse=True)[:5]
            self.extra["slowest_conditions"] = self._slow
            if r.status == "confirmed":
                self.discharge(j.ident(), 0, r.wall, {"condition": j.ident(), "result": "confirmed over all paths", "paths": r.num_paths, "wall_s": round(r.wall, 2)} if len(self.samples) < 6 else None)
            elif r.status == "inconclusive":
                self.inconclusive_(j.ident(), r.detail, r.wall)
            elif r.status == "error":
                self.harness_error(j.ident(), r.detail)
            else:
                self._triage(r)

    def _triage(self, r):
        j = r.job
        if not isinstance(r.args, dict) or "__raw__" in (r.args or {}):
            self.harness_error(j.ident(), f"counterexample not parseable: {r.detail}")
            return
        rep = xh.replay(j, r.args)
        if "worker_error" in rep:
            self.harness_error(j.ident(), f"replay failed: {rep}")
            return
        real, har = rep.get("real"), rep.get("harness") or {}
        verdict = real if real is not None else har
        what = f"{j.ident()} counterexample {json.dumps(r.args, default=str)[:300]} :: {r.detail[:200]}"
        if verdict.get("reproduced"):
            sig = (real or {}).get("sig") or f"{j.module}:{j.func}:{j.meta.get('sigtag', j.tag)}"
            detail = (real or {}).get("detail") or har.get("raised") or har.get("returned") or ""
            new = self.violation(sig, what + " :: " + str(detail)[:300], {"job": {"module": j.module, "func": j.func, "param": j.param, "tag": j.tag}, "args": r.args, "replay": rep}, r.wall)
            if not new and j.meta.get("tolerant") and isinstance(j.param, dict) and sig not in j.param.get("tolerate", []) and len(j.param.get("tolerate", [])) < 4:
                # known finding: assume exactly that class away and explore the rest of this condition's space
                p2 = dict(j.param)
                p2["tolerate"] = list(j.param.get("tolerate", [])) + [sig]
                j2 = xh.Job(j.module, j.func, p2, j.cond_timeout, j.path_timeout, False, j.tag + " (tolerating " + sig + ")", dict(j.meta))
                self._retry.append(j2)
        elif real is not None and real.get("contract_only"):
            # the counterexample lives only at the stub's contract level and no real input realises it
            self.notes.append(f"contract-level only (not reported): {what[:300]}")
            self.inconclusive_(j.ident(), "counterexample exists only at stub-contract level: " + str(real.get("detail"))[:200], r.wall)
        else:
            self.harness_error(j.ident(), f"counterexample did not reproduce: {what} replay={json.dumps(rep, default=str)[:800]}")

    # ------------------------------------------------------------------ finish
    def finish(self, level="other", explanation=""):
        wall = time.time() - self.t0
        nv = len(self.violations)
        cov = {
            "explanation": explanation,
            "functions_encoded": self.functions,
            "bounds": self.bounds,
            "outside_the_claim": self.outside,
            "obligations": self.obligations,
            "discharged": self.discharged,
            "inconclusive": len(self.inconclusive),
            "inconclusive_list": self.inconclusive[:20],
            "violations_reproduced": nv,
            "known_findings_hit": self.known_hits,
            "harness_errors": self.harness_errors[:10],
            "queries": self.queries,
            "symbolic_paths_explored": self.paths,
            "solver_time_s": round(self.solver_s, 2),
            "evaluations": max(self.queries, 1),
            "distinct_nontrivial": len(self.distinct),
            "rule": "one evaluation = one solver-decided condition (CrossHair condition over all paths, or one SMT query); distinct = distinct (harness, instance) pairs that were decided (confirmed or counterexample reproduced)",
            "samples": self.samples or [{"note": "no sample recorded"}],
            "repo_head": repo_head(),
            "wall_budget_s": self.budget,
            "notes": self.notes[:30],
        }
        cov.update(self.extra)
        ev = {
            "property_id": self.prop,
            "tier": self.tier,
            "seed": self.seed,
            "level": level,
            "coverage": cov,
            "assumptions": self.assumptions,
            "wall_s": round(wall, 2),
            "violations": nv,
        }
        os.makedirs(os.path.join(ROOT, "evidence"), exist_ok=True)
        with open(os.path.join(ROOT, "evidence", f"{self.prop}.json"), "w") as f:
            json.dump(ev, f, indent=1, default=str)
        self.log(f"{self.prop} [{self.tier}] obligations={self.obligations} discharged={self.discharged} inconclusive={len(self.inconclusive)} "
                 f"known={len(self.known_hits)} violations={nv} harness_errors={len(self.harness_errors)} paths={self.paths} wall={wall:.1f}s")
        if nv:
            return EXIT_VIOLATION
        if self.harness_errors:
            return EXIT_HARNESS
        return EXIT_OK
