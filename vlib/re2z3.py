"""Translate a Python regular expression (as compiled by pathspec for gitignore patterns) into a z3 regex over strings.
Supported: literals, ., character classes (incl. negated, ranges), * + ? {m,n}, groups (capturing or not), alternation, ^ and $ at the ends. Anything else raises Unsupported."""
import re

try:
    import re._parser as sre_parse
    import re._constants as sre_c
except ImportError:  # python < 3.11
    import sre_parse
    import sre_constants as sre_c

import z3


class Unsupported(Exception):
    pass


def _allchar():
    return z3.AllChar(z3.ReSort(z3.StringSort()))


def _char(c):
    return z3.Re(chr(c))


def _not_chars(res):
    """single characters outside the union of the given single-character regexes; newline excluded as '.' does not match it and paths have none"""
    u = res[0] if len(res) == 1 else z3.Union(*res)
    return z3.Intersect(_allchar(), z3.Complement(u))


def _items(items):
    out = []
    for op, arg in items:
        out.append(_node(op, arg))
    if not out:
        return z3.Re("")
    if len(out) == 1:
        return out[0]
    return z3.Concat(*out)


def _class(arg):
    neg = False
    parts = []
    for op, a in arg:
        if op == sre_c.NEGATE:
            neg = True
        elif op == sre_c.LITERAL:
            parts.append(_char(a))
        elif op == sre_c.RANGE:
            parts.append(z3.Range(chr(a[0]), chr(a[1])))
        else:
            raise Unsupported(f"class item {op}")
    if neg:
        return _not_chars(parts)
    return parts[0] if len(parts) == 1 else z3.Union(*parts)


def _node(op, arg):
    if op == sre_c.LITERAL:
        return _char(arg)
    if op == sre_c.NOT_LITERAL:
        return _not_chars([_char(arg)])
    if op == sre_c.ANY:
        return _not_chars([z3.Re("\n")])
    if op == sre_c.IN:
        return _class(arg)
    if op in (sre_c.MAX_REPEAT, sre_c.MIN_REPEAT):
        lo, hi, sub = arg
        r = _items(sub)
        if lo == 0 and hi == sre_c.MAXREPEAT:
            return z3.Star(r)
        if lo == 1 and hi == sre_c.MAXREPEAT:
            return z3.Plus(r)
        if lo == 0 and hi == 1:
            return z3.Option(r)
        if hi == sre_c.MAXREPEAT:
            return z3.Concat(z3.Loop(r, lo, lo), z3.Star(r))
        return z3.Loop(r, lo, hi)
    if op == sre_c.SUBPATTERN:
        return _items(arg[3])
    if op == sre_c.BRANCH:
        alts = [_items(a) for a in arg[1]]
        return alts[0] if len(alts) == 1 else z3.Union(*alts)
    if op == sre_c.AT:
        raise Unsupported("anchor inside the pattern")
    raise Unsupported(f"regex construct {op}")


def translate(pattern: str):
    """Full-match language of `pattern` when used with re.match (pathspec patterns are anchored with ^...$)."""
    tree = list(sre_parse.parse(pattern))
    if tree and tree[0][0] == sre_c.AT and tree[0][1] == sre_c.AT_BEGINNING:
        tree = tree[1:]
    else:
        raise Unsupported("pattern not anchored at the beginning")
    if tree and tree[-1][0] == sre_c.AT and tree[-1][1] == sre_c.AT_END:
        tree = tree[:-1]
    else:
        raise Unsupported("pattern not anchored at the end")
    return _items(tree)
