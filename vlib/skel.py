"""Layout-symbolic skeletons (DESIGN 2.3): canonical programs per language, rendered to text, lexed by the REAL Pygments lexer, with
generator-side ground truth (which tokens are a function's header start / name / body end / own tokens).

Program DSL (language independent):
  F(name, body, kind=..., brace=..., params=...)   named function / method / arrow function
  C(name, items)                                    class (namespace for C++/C#)
  S() IF(body) LOOP(body) CALL() LIT() INIT() ANON(body) RET()   statements
  N(k)                                              k simple one-line statements
"""
import itertools

LANGS = {
    "C": dict(lexer="c", fam="c", nest=False, classes=False),
    "Cpp": dict(lexer="cpp", fam="cpp", nest=False, classes=True),
    "CSharp": dict(lexer="csharp", fam="cs", nest=True, classes=True),      # C# local functions are reported as nested functions
    "Java": dict(lexer="java", fam="java", nest=False, classes=True),
    "JavaScript": dict(lexer="javascript", fam="js", nest=True, classes=True),
    "TypeScript": dict(lexer="typescript", fam="ts", nest=True, classes=True),
    "Python": dict(lexer="python", fam="py", nest=True, classes=True),
}


class F:
    def __init__(self, name, body=None, kind="fn", brace="same", params="simple"):
        self.name, self.body, self.kind, self.brace, self.params = name, body if body is not None else [S()], kind, brace, params


class C:
    def __init__(self, name, items):
        self.name, self.items = name, items


class St:
    def __init__(self, k, body=None, n=1):
        self.k, self.body, self.n = k, body, n


def S(): return St("simple")
def RET(): return St("ret")
def IF(body): return St("if", body)
def LOOP(body): return St("loop", body)
def CALL(): return St("call")
def LIT(): return St("lit")
def LITD(): return St("litdelim")
def INIT(): return St("init")
def ANON(body): return St("anon", body)
def N(k): return St("n", n=k)
def BLOCK(body): return St("block", body)
def DECL(): return St("decl")      # a function-like header WITHOUT a body of its own (Python one-liner, TypeScript overload signature, C prototype)


class Region:
    def __init__(self, name):
        self.name = name
        self.header_off = self.name_off = self.body_end_off = None
        self.children = []
        self.parent = None


class Renderer:
    def __init__(self, lang, comments=False):
        self.lang = lang
        self.comments = comments
        self.nline = 0
        self.fam = LANGS[lang]["fam"]
        self.buf = []
        self.pos = 0
        self.regions = []   # all functions in source order
        self.counter = 0
        self.stack = []

    # ---- low level
    def emit(self, s):
        self.buf.append(s)
        self.pos += len(s)

    def line(self, depth, s):
        if self.comments:
            # real comment text in the source (the real lexer decides what tokens that gives): comment-only lines at column 1 and at
            # the statement's indentation, trailing line comments, and (brace languages) block comments
            self.nline += 1
            lc = "# c" if self.fam == "py" else "// c"
            if self.comments == "hostile":
                # comment texts that merely CONTAIN the marker after separators, and characters str.splitlines() treats as line boundaries
                lc = ("# see, noclip; nocleanup #nocl-x \x0c\x0b\x1c\x85\u2028 end" if self.fam == "py" else "// cheat codes: god, noclip; #nocl \x0c\x0b\x1c\x85\u2028 end")
            k = 0 if self.comments == "col1" else self.nline % 4
            if self.comments == "hostile":
                self.emit("  " * depth + s + "  " + lc + "\n")     # trailing hostile comment on EVERY line (name lines included)
                if self.nline % 3 == 0:
                    self.emit("\x0c\n")                            # a form-feed-only line (page break)
                return
            if k == 0:
                self.emit(lc + " at column one\n")
            elif k == 1:
                self.emit("  " * depth + lc + "\n")
            elif k == 2 and self.fam != "py":
                self.emit("  " * depth + "/* block\n" + "  " * depth + "   comment */\n")
            if self.fam in ("c", "cpp") and self.nline % 5 == 3:
                # a disabled region: Pygments gives its lines the bare Comment type
                self.emit("#if 0\n" + "  " * depth + "dead(code);\n\n" + "  " * depth + "more(dead);\n#endif\n")
            trail = (" " + lc) if self.nline % 3 == 0 else ("  " if self.nline % 3 == 1 else "")
            self.emit("  " * depth + s + trail + "\n")
            return
        self.emit("  " * depth + s + "\n")

    def hdr_eol(self):
        """end of a header line: in the commented renderings also header lines (the function-name line above all) carry a trailing comment"""
        if self.comments:
            lc = "# c" if self.fam == "py" else "// c"
            if self.comments == "hostile":
                lc = ("# overwrites dst; noclobber, see #nocl-flag" if self.fam == "py" else "// cheat codes: god, noclip; see #nocl-flag")
            self.emit("  " + lc)
        self.emit("\n")

    def var(self):
        self.counter += 1
        return f"v{self.counter}"

    # ---- statements
    def stmts(self, body, depth):
        for st in body:
            self.stmt(st, depth)

    def stmt(self, st, depth):
        py = self.fam == "py"
        end = "" if py else ";"
        if isinstance(st, F):
            return self.func(st, depth)
        if isinstance(st, C):
            return self.cls(st, depth)
        k = st.k
        if k == "simple":
            if self.comments and self.fam in ("js", "ts") and self.counter % 2 == 0:
                end = ""    # statement terminated by the line end only (automatic semicolon insertion)
            self.line(depth, f"{self.var()} = 1{end}")
        elif k == "ret":
            self.line(depth, f"return 0{end}")
        elif k == "n":
            for _ in range(st.n):
                self.line(depth, f"{self.var()} = 1{end}")
        elif k == "call":
            self.line(depth, f"foo(a, bar(b)){end}")
        elif k == "lit":
            self.line(depth, f"{self.var()} = \"a{{b(c}}) d\"{end}")
        elif k == "litdelim":    # literals whose WHOLE content is one delimiter (lexers split quotes and content into separate tokens)
            self.line(depth, f"{self.var()} = \"{{\"{end}")
            self.line(depth, f"{self.var()} = \"(\"{end}")
            if self.fam in ("c", "cpp", "cs", "java"):
                self.line(depth, f"{self.var()} = '{{'{end}")
            self.line(depth, f"{self.var()} = \")\"{end}")
            self.line(depth, f"{self.var()} = \"}}\"{end}")
        elif k == "init":
            if self.fam in ("c", "cpp"):
                self.line(depth, f"int {self.var()}[] = {{1, 2}};")
            elif self.fam in ("cs", "java"):
                self.line(depth, f"int[] {self.var()} = {{1, 2}};")
            elif py:
                self.line(depth, f"{self.var()} = {{1: 2}}")
            else:
                self.line(depth, f"{self.var()} = {{a: 1}};")
        elif k in ("if", "loop"):
            kw = {"if": "if", "loop": "while"}[k]
            if py:
                self.line(depth, f"{kw} x:")
                self.stmts(st.body, depth + 1)
            else:
                self.line(depth, f"{kw} (x) {{")
                self.stmts(st.body, depth + 1)
                self.line(depth, "}")
        elif k == "decl":
            n = self.var()
            if py:
                self.line(depth, f"def short_{n}(v): return v")
            elif self.fam == "ts":
                self.line(depth, f"function over_{n}(a: number): number;")
            elif self.fam in ("c", "cpp"):
                self.line(depth, f"int proto_{n}(int a);")
            else:
                self.line(depth, f"{n} = 2{end}")
        elif k == "block":      # a bare brace block (Java/C# instance initialiser, block statement) - never a function
            if py:
                self.line(depth, f"{self.var()} = 3")
            else:
                self.line(depth, "{")
                self.stmts(st.body, depth + 1)
                self.line(depth, "}")
        elif k == "anon":
            if py:
                self.line(depth, f"{self.var()} = lambda a: a")
            elif self.fam in ("js", "ts"):
                self.line(depth, "run(function () {")
                self.stmts(st.body, depth + 1)
                self.line(depth, "});")
            elif self.fam == "java":
                self.line(depth, "run(() -> {")
                self.stmts(st.body, depth + 1)
                self.line(depth, "});")
            elif self.fam == "cs":
                self.line(depth, "run(() => {")
                self.stmts(st.body, depth + 1)
                self.line(depth, "});")
            elif self.fam == "cpp":
                self.line(depth, "run([&]() {")
                self.stmts(st.body, depth + 1)
                self.line(depth, "});")
            else:
                self.line(depth, f"{self.var()} = 2;")
        else:
            raise ValueError(k)

    # ---- classes
    def cls(self, c, depth):
        if self.fam == "py":
            self.line(depth, f"class {c.name}:")
            self.stmts(c.items, depth + 1)
        elif self.fam == "cpp":
            self.line(depth, f"class {c.name} {{")
            self.stmts(c.items, depth + 1)
            self.line(depth, "};")
        else:
            self.line(depth, f"class {c.name} {{")
            self.stmts(c.items, depth + 1)
            self.line(depth, "}")

    # ---- functions
    def params(self, f, depth):
        """returns list of text lines making up '(...)' (first element continues the header line)."""
        fam = self.fam
        typed = fam in ("c", "cpp", "cs", "java")
        a, b = ("int a", "int b") if typed else (("a: number", "b: number") if fam == "ts" else ("a", "b"))
        if f.params == "none":
            return ["()"]
        if f.params == "twogroups":   # an identifier followed by TWO balanced groups (macro-style / curried headers)
            return [f"(tag)({a}, {b})"]
        if f.params == "simple":
            return [f"({a}, {b})"]
        if f.params == "multiline":
            return ["(", f"    {a},", f"    {b}", ")"]
        if f.params == "bracegroup":   # a brace group inside the parameter list
            if fam == "py":
                return ["(a, b={1: 2})"]
            if fam in ("js", "ts"):
                return ["(a, b = {x: 1})"]
            if fam == "cpp":
                return ["(int a, S b = {1, 2})"]
            if fam == "cs":
                return ["(int a, int[] b = new int[] {1, 2})"]
            return [f"({a}, {b})"]
        if f.params == "arrowdefault":  # a default value that is itself an arrow function with a block body (JS/TS)
            return ["(a, done = (err) => {", "    log(err);", "})"]
        if f.params == "calldefault":  # a call expression inside the parameter list
            if fam == "py":
                return ["(a, b=bar(1))"]
            if fam in ("js", "ts"):
                return ["(a, b = bar(1))"]
            if fam == "cpp":
                return ["(int a, int b = bar(1))"]
            return [f"({a}, {b})"]
        raise ValueError(f.params)

    def func(self, f, depth):
        fam = self.fam
        r = Region(f.name)
        r.params, r.kind, r.brace = f.params, f.kind, f.brace
        if self.stack:
            r.parent = self.stack[-1]
            self.stack[-1].children.append(r)
        self.regions.append(r)
        ind = "  " * depth
        self.emit(ind)
        # ---- header prefix; header_off = first token of the header as the language declares it
        pre_kw = ""      # tokens before the declared header (types, modifiers)
        head = ""        # declared header prefix before the name
        post = ""        # after the parameter list, before the body opener
        kind = f.kind
        if fam in ("c", "cpp"):
            pre_kw = "int "
        elif fam in ("cs", "java"):
            pre_kw = ("int " if self.stack else "public int ") if kind != "ctor" else "public "
            if kind == "throws" and fam == "java":
                post = " throws IOException, E2"
            if kind == "throwslong" and fam == "java":
                post = " throws java.io.IOException, java.sql.SQLException,\n" + ind + "      a.b.c.E3, E4, E5"
        elif fam in ("js", "ts"):
            if kind == "fn":
                head = "function "
            elif kind == "asyncfn":
                head = "async function "
            elif kind == "method":
                head = ""
            elif kind == "arrow":
                head = "const "
            elif kind == "asyncarrow":
                head = "const "
            if fam == "ts" and kind in ("fn", "method", "asyncfn"):
                post = ": number"
        elif fam == "py":
            head = "async def " if kind == "asyncfn" else "def "
            if kind == "typed":
                post = " -> int"
        self.emit(pre_kw)
        r.header_off = self.pos
        self.emit(head)
        r.name_off = self.pos
        self.emit(f.name)
        if kind in ("arrow", "asyncarrow"):
            self.emit(" = " + ("async " if kind == "asyncarrow" else ""))
        plines = self.params(f, depth)
        self.emit(plines[0])
        for pl in plines[1:]:
            self.hdr_eol()
            self.emit(ind + pl)
        self.emit(post)
        if kind in ("arrow", "asyncarrow"):
            self.emit(" =>")
        self.stack.append(r)
        if fam == "py":
            self.emit(":")
            self.hdr_eol()
            self.stmts(f.body, depth + 1)
            # body end = just past the last non-newline char emitted
            text = "".join(self.buf)
            r.body_end_off = len(text.rstrip("\n"))
        else:
            if f.brace == "same":
                self.emit(" {")
                self.hdr_eol()
            else:
                self.hdr_eol()
                self.emit(ind + "{\n")
            self.stmts(f.body, depth + 1)
            self.emit(ind + "}")
            r.body_end_off = self.pos
            self.emit(";\n" if kind in ("arrow", "asyncarrow") else "\n")
        self.stack.pop()

    def render(self, items):
        self.stmts(items, 0)
        return "".join(self.buf)


class Skeleton:
    """Canonical text + real tokens + ground truth for one program."""

    def __init__(self, lang, items, label="", comments=False, text=None):
        from pygments.lexers import get_lexer_by_name
        from codelimit.common.lexer_utils import lex
        from codelimit.common.source_utils import filter_tokens
        self.lang, self.label = lang, label
        if text is not None:          # a real-world file (vendored corpus): no generator ground truth, metamorphic modes only
            self.text, self.regions = text, []
        else:
            rd = Renderer(lang, comments)
            self.text = rd.render(items)
            self.regions = rd.regions
        from codelimit.common.Location import Location
        from codelimit.common.Token import Token
        # token positions are the ORACLE's own: Pygments offsets mapped to (line, column) by splitting the text on "\n" only
        nls = [i for i, ch in enumerate(self.text) if ch == "\n"]
        own = []
        for off, typ, val in get_lexer_by_name(LANGS[lang]["lexer"]).get_tokens_unprocessed(self.text):
            if val == "" or val.isspace():
                continue
            k = sum(1 for n in nls if n < off)
            own.append(Token(Location(k + 1, off - (nls[k - 1] + 1 if k else 0) + 1), typ, val))
        self.all_tokens = own          # comments kept, whitespace and zero-length tokens dropped
        # what the code under test makes of the same text (C16's subject; compared by the harness so that a wrong lex() is reported, not inherited)
        real = lex(get_lexer_by_name(LANGS[lang]["lexer"]), self.text, False)
        self.lex_mismatch = []
        ro = [(t.location.line, t.location.column, t.value) for t in real if t.value.strip() != ""]
        oo = [(t.location.line, t.location.column, t.value) for t in own]
        if ro != oo:
            for a, b in zip(ro, oo):
                if a != b:
                    self.lex_mismatch = [a, b]
                    break
            if not self.lex_mismatch:
                self.lex_mismatch = ["length", len(ro), len(oo)]
        from pygments.token import Comment
        # the oracle's own notion of a code token (independent of filter_tokens / lex): non-empty, not all whitespace, not a comment
        self.code = [t for t in self.all_tokens if t.value.strip() != "" and t.token_type not in Comment]
        starts = [0]
        for i, ch in enumerate(self.text):
            if ch == "\n":
                starts.append(i + 1)
        self.line_starts = starts
        self.off = [starts[t.location.line - 1] + t.location.column - 1 for t in self.code]
        self.truth = []
        for r in self.regions:
            self.truth.append(self._truth(r))
        for t, r in zip(self.truth, self.regions):
            t["children"] = [self.regions.index(c) for c in r.children]
            t["parent"] = self.regions.index(r.parent) if r.parent is not None else None
        for i, t in enumerate(self.truth):
            own = set(range(t["hs"], t["be"] + 1))
            for c in t["children"]:
                own -= set(range(self.truth[c]["hs"], self.truth[c]["be"] + 1))
            t["own"] = sorted(own)
            t["length"] = len({self.code[k].location.line for k in own})

    def _truth(self, r):
        hs = next(i for i, o in enumerate(self.off) if o >= r.header_off)
        assert self.off[hs] == r.header_off, (self.lang, self.label, r.name, "header start is not a token start", self.text)
        nm = self.off.index(r.name_off)
        assert self.code[nm].value == r.name, (self.code[nm].value, r.name)
        be = max(i for i, o in enumerate(self.off) if o < r.body_end_off)
        if LANGS[self.lang]["fam"] != "py":   # Python: the suite ends with its last code token (trailing comments / blanks may follow in the text)
            assert self.off[be] + len(self.code[be].value) == r.body_end_off, (self.lang, self.label, r.name, "body end mismatch", self.code[be].value)
        return {"name": r.name, "hs": hs, "nm": nm, "be": be}

    def n_lines(self):
        return len(self.line_starts) - (1 if self.text.endswith("\n") else 0)

    def reportable(self):
        """Indices of functions the statement expects in the output (all of them; nesting only where the language nests), in source order."""
        out = []
        for i, t in enumerate(self.truth):
            if t["parent"] is not None and not LANGS[self.lang]["nest"]:
                continue
            out.append(i)
        return out

    def relayout(self, gaps, cols):
        """Re-render the canonical text with gaps[j] blank lines inserted before canonical line j (1-based index into gaps dict) and
        indentation level k drawn at column cols[k] (for the replay through the real lexer)."""
        lines = self.text.split("\n")
        out = []
        for j, ln in enumerate(lines, start=1):
            out.extend([""] * int(gaps.get(j, 0)))
            stripped = ln.lstrip(" ")
            if stripped == "":
                out.append(ln)
                continue
            ind = len(ln) - len(stripped)
            level, extra = divmod(ind, 2)
            if level < len(cols):
                out.append(" " * (cols[level] - 1 + extra) + stripped)
            else:
                out.append(ln)
        return "\n".join(out)


# ----------------------------------------------------------------------------------------------- program families
def programs(lang, tier="quick", seed=0):
    """-> list of (label, items). Core family is fixed; the thorough tier adds a combinatorial product."""
    fam = LANGS[lang]["fam"]
    nest = LANGS[lang]["nest"]
    classes = LANGS[lang]["classes"]
    P = []

    def add(label, items):
        P.append((label, items))

    kinds = {"c": ["fn"], "cpp": ["fn"], "cs": ["fn"], "java": ["fn", "throws", "throwslong"], "js": ["fn", "arrow", "asyncarrow", "asyncfn"], "ts": ["fn", "arrow", "asyncarrow", "asyncfn"], "py": ["fn", "typed", "asyncfn"]}[fam]
    top = (lambda fs: fs) if fam in ("c", "js", "ts", "py", "cpp") else (lambda fs: [C("K", fs)])
    body3 = [S(), IF([S()]), RET()]
    # single function, each header kind / brace style / parameter style
    for k in kinds:
        add(f"one-{k}", top([F("f1", [S(), RET()], kind=k)]))
    if fam != "py":
        add("brace-next", top([F("f1", [S(), RET()], brace="next")]))
    add("params-multiline", top([F("f1", [S(), RET()], params="multiline")]))
    add("params-none", top([F("f1", [RET()], params="none")]))
    if fam in ("c", "cpp", "js"):
        add("params-twogroups", top([F("f1", [S(), RET()], params="twogroups"), F("f2", [S()])]))
    add("literal-delimiters", top([F("f1", [S(), LITD(), RET()]), F("f2", [S()])]))
    if fam in ("py", "js", "ts", "cpp", "cs"):
        add("params-bracegroup", top([F("f1", [S(), RET()], params="bracegroup")]))
    if fam in ("py", "js", "ts", "cpp"):
        add("params-calldefault", top([F("f1", [S(), RET()], params="calldefault")]))
    # statement mix
    add("stmt-mix", top([F("f1", [S(), IF([S(), LOOP([CALL()])]), LIT(), INIT(), CALL(), RET()])]))
    add("anon", top([F("f1", [S(), ANON([S(), S()]), RET()])]))
    add("control-first", top([F("f1", [IF([S()]), S()])]))
    add("control-last", top([F("f1", [S(), LOOP([S(), S()])])]))
    # several functions, global code between
    glob = [] if fam in ("cs", "java") else [S()]
    add("two", top([F("f1", body3), F("f2", [S()])]))
    add("three-global", top(glob + [F("f1", body3)] + glob + [F("f2", [CALL(), RET()])] + glob + [F("f3", [LIT()])] + glob))
    if fam != "c" and classes:
        mk = "method" if fam in ("js", "ts") else "fn"
        add("class-methods", [C("A", [F("m1", body3, kind=mk), F("m2", [S()], kind=mk)])])
        add("two-classes", [C("A", [F("m1", [S()], kind=mk)]), C("B", [F("m2", body3, kind=mk)])] + ([F("g", [S()])] if fam in ("js", "ts", "py", "cpp") else []))
        if fam in ("java", "cs", "py"):
            add("nested-class", [C("A", [F("m1", [S()], kind=mk), C("B", [F("m2", [S(), RET()], kind=mk)]), F("m3", [RET()], kind=mk)])])
        if fam in ("java", "cs"):
            add("initializer-after-method", [C("A", [F("m1", [S(), RET()]), INIT(), F("m2", [S()])])])
    # a bare brace block directly after a function / method body (initialiser block, block statement): must not be merged into the function
    if fam != "py":
        add("block-after-function", top([F("f1", [S(), RET()]), BLOCK([S(), S()]), F("f2", [S()])]))
        if fam in ("c", "cpp", "js", "ts"):
            add("block-inside-after-nested" if nest else "block-in-body", top([F("f1", [S(), BLOCK([S()]), RET()])]))
    # nested functions: first / middle / last position; two levels; three levels
    if nest:
        inner = lambda n: F(n, [S(), RET()])
        add("nested-first", top([F("f1", [inner("g1"), S(), RET()])]))
        add("nested-middle", top([F("f1", [S(), inner("g1"), S(), RET()])]))
        add("nested-middle-onetoken", top([F("f1", [S(), inner("g1"), RET()])]))
        add("nested-last", top([F("f1", [S(), inner("g1")])]))
        add("nested-two", top([F("f1", [inner("g1"), S(), inner("g2"), RET()]), F("f2", [S()])]))
        add("nested-3-levels", top([F("f1", [S(), F("g1", [S(), F("h1", [S(), RET()]), RET()]), RET()])]))
        add("nested-in-control", top([F("f1", [IF([inner("g1")]), RET()])]))
    # long bodies around the thresholds
    if tier == "quick":   # the counting code is language independent: the longest bodies only for one language per block style
        longs = [15, 16, 31] + ([30, 60, 61] if lang in ("C", "Python") else [])
    else:
        longs = [2, 14, 15, 16, 29, 30, 31, 59, 60, 61, 75]
    for n in longs:
        if n >= 2:
            add(f"long-{n}", top([F("f1", [N(n - 1)] if fam == "py" else ([N(n - 2)] if n > 2 else []))]))
    # the same programs written WITH comments in the source text (C04: the real lexer's comment tokens, incl. column-1 comments after expression lines)
    for label, items in list(P):
        if label in ("stmt-mix", "two", "three-global", "class-methods", "nested-middle", "nested-3-levels", "anon", "brace-next", "params-multiline", "one-arrow"):
            P.append(("cmt-" + label, items))
            if label in ("stmt-mix", "two", "nested-middle", "class-methods"):
                P.append(("cmt1-" + label, items))
            if label in ("two", "class-methods", "params-multiline"):
                P.append(("cmtx-" + label, items))
    if tier != "quick":
        # combinatorial product: 2 functions x body shapes x header kinds
        bodies = {"s": [S()], "ctl": [IF([S()]), S()], "mix": [S(), LIT(), INIT(), CALL()], "anon": [ANON([S()]), RET()]}
        for (ka, kb), (ba, bb) in itertools.product(itertools.product(kinds, repeat=2), itertools.product(bodies, repeat=2)):
            add(f"prod-{ka}-{kb}-{ba}-{bb}", top([F("f1", bodies[ba], kind=ka), F("f2", bodies[bb], kind=kb)]))
        if nest:
            for pos in range(3):
                for kb in bodies:
                    b = list(bodies[kb])
                    b.insert(min(pos, len(b)), F("g1", [S(), RET()]))
                    add(f"nestprod-{pos}-{kb}", top([F("f1", b), F("f2", [S()])]))
    return P


def extra_programs(lang):
    """Programs outside the canonical family of C01 (they hit listed known findings there) that other checks still want to look at."""
    fam = LANGS[lang]["fam"]
    P = {}
    if fam in ("js", "ts"):
        P["x-arrow-default-arrow"] = [F("handler", [RET()], kind="arrow", params="arrowdefault"), F("plain", [RET()])]
        P["x-fn-default-arrow"] = [F("handler", [RET()], kind="fn", params="arrowdefault"), F("plain", [RET()])]
    if fam in ("js", "ts"):
        # the two header patterns of JS/TS (function keyword / arrow) interleaved in source order, also nested in each other
        P["x-arrow-then-fn"] = [F("first", [RET()], kind="arrow"), F("second", [S(), RET()]), F("third", [RET()], kind="arrow"), F("fourth", [RET()])]
        P["x-arrow-encloses-fn"] = [F("outer", [S(), F("inner", [RET()]), RET()], kind="arrow"), F("after", [RET()])]
    if fam in ("py", "ts", "c", "cpp"):
        # headers without a body of their own in front of / between ordinary functions (not in C01's family: whether a one-line def is itself a function to report is not this framework's call)
        P["x-decl-first"] = [DECL(), F("f1", [S(), IF([S()]), RET()]), F("f2", [S(), RET()])]
        P["x-decl-middle"] = [F("f1", [S(), RET()]), DECL(), DECL(), F("f2", [S(), LOOP([S()]), RET()]), F("f3", [RET()])]
    return P


CORPUS_DIR = {"C": "c", "Cpp": "cpp", "CSharp": "cs", "Java": "java", "Python": "py", "JavaScript": "js", "TypeScript": "ts"}


def corpus_files(lang):
    """vendored real-world sources (/verif/corpus/<dir>/, see corpus/README.md) -> [(label, text)]"""
    import os
    d = os.path.join(os.path.dirname(os.path.dirname(os.path.abspath(__file__))), "corpus", CORPUS_DIR[lang])
    out = []
    for n in sorted(os.listdir(d)) if os.path.isdir(d) else []:
        with open(os.path.join(d, n), encoding="utf-8", newline="") as f:
            out.append(("corpus:" + n, f.read().replace("\r\n", "\n")))
    return out


def build_all(lang, tier="quick", seed=0):
    out = []
    for label, items in programs(lang, tier, seed):
        out.append(Skeleton(lang, items, label))
    return out
