"""Runs in a subprocess: analyse (CrossHair) or replay (plain CPython) ONE harness function.

usage: python -m vlib.xh_worker analyze|replay <job.json>
The job file holds {module, func, param, cond_timeout, path_timeout, args?}. Output: one JSON object on the last stdout line.
"""
import ast
import collections
import importlib.util
import inspect
import json
import os
import sys
import time
import traceback


def enc(o):
    """JSON-safe encoding of counterexample values (bytes are not JSON)."""
    if isinstance(o, (bytes, bytearray)):
        return {"__bytes__": list(o)}
    if isinstance(o, dict):
        return {k: enc(v) for k, v in o.items()}
    if isinstance(o, (list, tuple)):
        return [enc(v) for v in o]
    return o


def dec(o):
    if isinstance(o, dict):
        if set(o) == {"__bytes__"}:
            return bytes(o["__bytes__"])
        return {k: dec(v) for k, v in o.items()}
    if isinstance(o, list):
        return [dec(v) for v in o]
    return o


def load_module(path: str, param):
    os.environ["VERIF_PARAM"] = json.dumps(param)
    name = "vh_" + os.path.splitext(os.path.basename(path))[0]
    spec = importlib.util.spec_from_file_location(name, path)
    mod = importlib.util.module_from_spec(spec)
    sys.modules[name] = mod
    spec.loader.exec_module(mod)
    return mod


def parse_call(msg: str, fn):
    """Extract the concrete arguments CrossHair printed in '... when calling f(a, b=..) (which returns X)'."""
    key = "when calling "
    i = msg.find(key)
    if i < 0:
        return None
    call = msg[i + len(key):]
    j = call.rfind(" (which returns")
    if j >= 0:
        call = call[:j]
    call = call.strip()
    try:
        node = ast.parse(call, mode="eval").body
        names = list(inspect.signature(fn).parameters)
        out = {}
        for k, a in enumerate(node.args):
            out[names[k]] = ast.literal_eval(a)
        for kw in node.keywords:
            out[kw.arg] = ast.literal_eval(kw.value)
        return out
    except Exception as e:  # unparseable repr (objects): keep the raw text
        return {"__raw__": call, "__err__": repr(e)}


def analyze(job):
    from crosshair.core_and_libs import analyze_function, run_checkables
    from crosshair.options import AnalysisOptionSet
    from crosshair.statespace import MessageType

    mod = load_module(job["module"], job.get("param"))
    fn = getattr(mod, job["func"])
    stats = collections.Counter()
    opts = AnalysisOptionSet(
        per_condition_timeout=float(job.get("cond_timeout", 30)),
        per_path_timeout=float(job.get("path_timeout", 10)),
        report_all=True,
        max_uninteresting_iterations=sys.maxsize,
        stats=stats,
    )
    t0 = time.time()
    msgs = run_checkables(analyze_function(fn, opts))
    out = []
    for m in msgs:
        out.append(
            {
                "state": m.state.value,
                "message": m.message,
                "line": m.line,
                "args": enc(parse_call(m.message, fn)) if m.state in (MessageType.POST_FAIL, MessageType.EXEC_ERR, MessageType.POST_ERR) else None,
            }
        )
    return {"messages": out, "num_paths": stats.get("num_paths", 0), "wall": time.time() - t0}


def replay(job):
    mod = load_module(job["module"], job.get("param"))
    fn = getattr(mod, job["func"])
    args = dec(job["args"])
    res = {"harness": None, "real": None}
    try:
        r = fn(**args)
        res["harness"] = {"reproduced": (r is False), "returned": repr(r)}
    except Exception as e:
        res["harness"] = {"reproduced": True, "raised": repr(e), "tb": traceback.format_exc()[-1500:]}
    real = getattr(mod, "real_" + job["func"], None)
    if real is not None:
        try:
            res["real"] = real(**args)      # None = no public-entry replay applies to these arguments: the harness-level replay decides
        except Exception as e:
            res["real"] = {"reproduced": False, "error": repr(e), "tb": traceback.format_exc()[-1500:]}
    return res


def call(job):
    mod = load_module(job["module"], job.get("param"))
    return {"value": getattr(mod, job["func"])(**(job.get("args") or {}))}


def main():
    mode, jobfile = sys.argv[1], sys.argv[2]
    with open(jobfile) as f:
        job = json.load(f)
    sys.setrecursionlimit(10000)
    try:
        res = analyze(job) if mode == "analyze" else (call(job) if mode == "call" else replay(job))
    except BaseException as e:  # noqa
        res = {"worker_error": repr(e), "tb": traceback.format_exc()[-3000:]}
    sys.stdout.write("\n@@RESULT@@" + json.dumps(res, default=repr) + "\n")


if __name__ == "__main__":
    main()
