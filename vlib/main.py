import argparse
import importlib
import json
import os
import sys

from .ctx import Ctx, ROOT
from . import xh


def main():
    if os.environ.get("VERIF_REPO"):
        sys.path.insert(0, os.environ["VERIF_REPO"])
    ap = argparse.ArgumentParser()
    ap.add_argument("prop")
    ap.add_argument("--tier", default=os.environ.get("VERIF_TIER", "quick"), choices=["quick", "thorough"])
    ap.add_argument("--replay")
    a = ap.parse_args()
    seed = int(os.environ.get("VERIF_SEED", "0") or 0)
    if a.replay:
        with open(a.replay) as f:
            rp = json.load(f)
        j = rp["replay"].get("job")
        if j:
            job = xh.Job(j["module"], j["func"], j["param"], tag=j.get("tag", ""))
            res = xh.replay(job, rp["replay"]["args"])
            print(json.dumps(res, indent=1, default=str))
            v = res.get("real") or res.get("harness") or {}
            sys.exit(1 if v.get("reproduced") else 0)
        mod = importlib.import_module(f"checks.{a.prop}")
        sys.exit(mod.replay(rp))
    sys.path.insert(0, ROOT)
    mod = importlib.import_module(f"checks.{a.prop}")
    ctx = Ctx(a.prop, a.tier, seed)
    try:
        mod.run(ctx)
    except Exception as e:  # machinery failure: never a VIOLATION
        import traceback
        traceback.print_exc()
        ctx.harness_error("driver", repr(e))
    sys.exit(ctx.finish(level=getattr(mod, "LEVEL", "other"), explanation=getattr(mod, "EXPLANATION", "")))


if __name__ == "__main__":
    main()
