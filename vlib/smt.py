"""E2 query dispatch: each query (an SMT-LIB2 text) is solved by z3 and cvc5 in parallel subprocesses; answers must agree."""
import concurrent.futures as cf
import json
import os
import shutil
import subprocess
import sys
import tempfile
import time

ROOT = os.path.dirname(os.path.dirname(os.path.abspath(__file__)))


def to_smt2(solver, logic=None):
    txt = solver.to_smt2()
    if logic:
        txt = f"(set-logic {logic})\n" + txt
    return txt


def _parse(stdout, stderr=""):
    k = stdout.rfind("@@RESULT@@")
    if k < 0:
        return {"result": "error", "error": (stderr or "")[-500:], "seconds": 0.0, "model": {}}
    return json.loads(stdout[k + 10:])


def _query(path, timeout_s, names, solvers, grace):
    """Run all solvers on one file concurrently; once one has decided, the others get `grace` more seconds (cross-check), then are stopped."""
    env = dict(os.environ)
    env["PYTHONPATH"] = (env["VERIF_REPO"] + os.pathsep if env.get("VERIF_REPO") else "") + ROOT
    procs = {}
    for which in solvers:
        procs[which] = subprocess.Popen([sys.executable, "-m", "vlib.smt_worker", which, path, str(timeout_s)] + list(names), stdout=subprocess.PIPE, stderr=subprocess.PIPE, text=True, env=env, cwd=ROOT)
    t0 = time.time()
    results = {}
    decided_at = None
    while len(results) < len(procs):
        for which, p in procs.items():
            if which in results:
                continue
            if p.poll() is not None:
                out, err = p.communicate()
                results[which] = _parse(out, err)
                if results[which]["result"] in ("sat", "unsat") and decided_at is None:
                    decided_at = time.time()
        now = time.time()
        if (decided_at is not None and now - decided_at > grace) or now - t0 > timeout_s + 30:
            for which, p in procs.items():
                if which not in results:
                    p.kill()
                    p.communicate()
                    results[which] = {"result": "stopped" if decided_at is not None else "timeout", "seconds": now - t0, "model": {}}
            break
        time.sleep(0.05)
    return results


def solve_all(queries, timeout_s=300.0, nproc=16, solvers=("z3", "cvc5"), grace=20.0):
    """queries: list of (name, smt2 text, [model var names]). Returns {name: {verdict, by_solver, model, seconds}}.
    verdict: 'sat' | 'unsat' | 'unknown' | 'disagree'."""
    scratch = tempfile.mkdtemp(prefix="verif-smt-")
    out = {}
    try:
        with cf.ThreadPoolExecutor(max_workers=max(1, nproc // len(solvers))) as ex:
            futs = {}
            for name, text, names in queries:
                path = os.path.join(scratch, f"q{len(futs)}.smt2")
                with open(path, "w") as f:
                    f.write(text)
                futs[ex.submit(_query, path, timeout_s, names, solvers, grace)] = name
            for fut in cf.as_completed(futs):
                out[futs[fut]] = {"by_solver": fut.result()}
    finally:
        shutil.rmtree(scratch, ignore_errors=True)
    for name, o in out.items():
        answers = {w: r["result"] for w, r in o["by_solver"].items()}
        decided = {a for a in answers.values() if a in ("sat", "unsat")}
        if len(decided) == 2:
            o["verdict"] = "disagree"
        elif len(decided) == 1:
            o["verdict"] = decided.pop()
        else:
            o["verdict"] = "unknown"
        o["answers"] = answers
        o["seconds"] = min((r.get("seconds", 0.0) for r in o["by_solver"].values() if r["result"] in ("sat", "unsat")), default=max((r.get("seconds", 0.0) for r in o["by_solver"].values()), default=0.0))
        o["model"] = next((r["model"] for w, r in sorted(o["by_solver"].items(), key=lambda kv: kv[0] != "z3") if r["result"] == "sat" and r.get("model")), {})
    return out
