"""Solve one SMT-LIB2 file with z3 (python API) or cvc5 (python API); prints JSON {result, model{name: value}, seconds}."""
import json
import sys
import time


def run_z3(path, timeout_s, names):
    import z3
    s = z3.Solver()
    s.set("timeout", int(timeout_s * 1000))
    s.from_file(path)
    t0 = time.time()
    r = str(s.check())
    out = {"result": r, "seconds": time.time() - t0, "model": {}}
    if r == "sat":
        m = s.model()
        for d in m.decls():
            if d.name() in names:
                v = m[d]
                try:
                    out["model"][d.name()] = v.as_signed_long() if z3.is_bv_value(v) else (v.as_long() if z3.is_int_value(v) else (v.as_string() if z3.is_string_value(v) else str(v)))
                except Exception:
                    out["model"][d.name()] = str(v)
    return out


def run_cvc5(path, timeout_s, names):
    import cvc5
    tm = cvc5.TermManager()
    slv = cvc5.Solver(tm)
    slv.setOption("tlimit-per", str(int(timeout_s * 1000)))
    slv.setOption("produce-models", "true")
    parser = cvc5.InputParser(slv)
    text = open(path).read() + "\n" + "".join(f"(get-value ({n}))\n" for n in names)
    parser.setStringInput(cvc5.InputLanguage.SMT_LIB_2_6, text, "q")
    sm = parser.getSymbolManager()
    res, vals = None, {}
    t0 = time.time()
    secs = 0.0
    while True:
        cmd = parser.nextCommand()
        if cmd.isNull():
            break
        name = cmd.getCommandName()
        if name == "get-value" and res != "sat":
            continue
        r = cmd.invoke(slv, sm).strip()
        if name == "check-sat":
            res = r
            secs = time.time() - t0
        elif name == "get-value" and r.startswith("(("):
            k, v = r[2:-2].split(" ", 1)
            v = v.strip()
            if v.startswith("#b") or v.startswith("#x"):      # bit-vector literal -> signed integer
                bits = len(v) - 2 if v.startswith("#b") else 4 * (len(v) - 2)
                n = int(v[2:], 2 if v.startswith("#b") else 16)
                v = n - (1 << bits) if n >= (1 << (bits - 1)) else n
            vals[k] = v
    return {"result": res or "unknown", "seconds": secs, "model": vals}


if __name__ == "__main__":
    which, path, timeout_s = sys.argv[1], sys.argv[2], float(sys.argv[3])
    names = sys.argv[4:]
    try:
        out = run_z3(path, timeout_s, names) if which == "z3" else run_cvc5(path, timeout_s, names)
    except Exception as e:
        out = {"result": "error", "error": repr(e), "seconds": 0.0, "model": {}}
    print("@@RESULT@@" + json.dumps(out))
