"""S-fs: an in-memory file system that stands in for os.walk / open / pathlib in the namespaces of the modules under test.

Contracts honoured (and nothing else): walk is top-down and respects in-place pruning of `dirs`; sibling order is the order given by `order`
(a permutation chosen by the harness, possibly symbolic); is_file/is_dir/exists/read_text/write_text/mkdir behave like pathlib on the tree.
File content may be str (text) or bytes (decoded on open() with the requested / default utf-8 encoding, strictly).
"""
import os
import posixpath
from pathlib import PurePosixPath


class FakeFS:
    def __init__(self, files=None, cwd="/w", dirs=()):
        self.files = dict(files or {})          # absolute posix path -> content
        self.cwd = cwd
        self.extra_dirs = set(dirs) | {cwd}
        self.log = []                            # (op, path)
        self.order = None                        # optional callable(list of names) -> reordered list

    # ---- tree queries
    def all_dirs(self):
        ds = set(self.extra_dirs)
        for f in self.files:
            p = posixpath.dirname(f)
            while p and p != "/":
                ds.add(p)
                p = posixpath.dirname(p)
        ds.add("/")
        return ds

    def is_file(self, p):
        return p in self.files

    def is_dir(self, p):
        return p in self.all_dirs()

    def exists(self, p):
        return self.is_file(p) or self.is_dir(p)

    def listdir(self, d):
        dirs, files = [], []
        for x in sorted(self.all_dirs()):
            if x != d and posixpath.dirname(x) == d and x != "/":
                dirs.append(posixpath.basename(x))
        for f in sorted(self.files):
            if posixpath.dirname(f) == d:
                files.append(posixpath.basename(f))
        if self.order is not None:
            dirs, files = self.order(dirs), self.order(files)
        return dirs, files

    def walk(self, top):
        """os.walk contract: roots are the given `top` string extended by the names walked (NOT normalised), top-down, honouring in-place pruning of dirs."""
        top = str(top)
        if not self.is_dir(posixpath.normpath(top)):
            return
        stack = [top]
        while stack:
            d = stack.pop(0)
            dirs, files = self.listdir(posixpath.normpath(d))
            self.log.append(("walk", d))
            yield d, dirs, files
            # only the names still in `dirs` are visited (depth-first, in listing order)
            stack = [posixpath.join(d, x) for x in dirs] + stack

    # ---- content
    def read(self, p, encoding=None, binary=False):
        p = self.abspath(p)
        self.log.append(("read", p))
        if p not in self.files:
            raise FileNotFoundError(p)
        c = self.files[p]
        if binary:
            return c if isinstance(c, (bytes, bytearray)) else c.encode("utf-8")
        if isinstance(c, (bytes, bytearray)):
            c = c.decode(encoding or "utf-8")        # strict: raises UnicodeDecodeError like open(...).read()
        # text mode with the default newline=None: universal newlines, as the built-in open() does
        return c.replace("\r\n", "\n").replace("\r", "\n") if isinstance(c, str) else c

    def write(self, p, text):
        p = str(p)
        self.log.append(("write", p))
        if not self.is_dir(posixpath.dirname(p)):
            raise FileNotFoundError(p)
        self.files[p] = text

    def mkdir(self, p):
        p = str(p)
        self.log.append(("mkdir", p))
        if self.exists(p):
            raise FileExistsError(p)
        self.extra_dirs.add(p)

    def abspath(self, p):
        p = str(p)
        return posixpath.normpath(p if p.startswith("/") else posixpath.join(self.cwd, p))

    def open(self, p, mode="r", encoding=None, **kw):
        return _FakeFile(self, self.abspath(p), mode, encoding)


class _FakeFile:
    def __init__(self, fs, p, mode, encoding):
        self.fs, self.p, self.mode, self.encoding = fs, p, mode, encoding
        if "r" in mode and p not in fs.files:
            raise FileNotFoundError(p)

    def __enter__(self):
        return self

    def __exit__(self, *a):
        return False

    def read(self, size=-1):
        if getattr(self, "_buf", None) is None:
            self._buf = self.fs.read(self.p, self.encoding, binary="b" in self.mode)
            self._pos = 0
        if size is None or size < 0:
            out = self._buf[self._pos:]
            self._pos = len(self._buf)
        else:
            out = self._buf[self._pos:self._pos + size]
            self._pos += len(out)
        return out

    def write(self, s):
        self.fs.write(self.p, s)


def normalize(p):
    """Lexical normalisation (what Path.resolve() does for paths without symlinks)."""
    return posixpath.normpath(p)


def make_path_class(fs):
    class FP(PurePosixPath):
        """pathlib.Path stand-in bound to a FakeFS (pure path arithmetic is inherited from PurePosixPath unchanged)."""
        _fs = fs

        @classmethod
        def cwd(cls):
            return cls(cls._fs.cwd)

        def absolute(self):
            return self if self.is_absolute() else type(self)(self._fs.cwd, self)

        def resolve(self, strict=False):
            return type(self)(normalize(str(self.absolute())))

        def is_file(self):
            return self._fs.is_file(normalize(str(self.absolute())))

        def is_dir(self):
            return self._fs.is_dir(normalize(str(self.absolute())))

        def exists(self):
            return self._fs.exists(normalize(str(self.absolute())))

        def read_text(self, encoding=None):
            return self._fs.read(normalize(str(self.absolute())), encoding)

        def write_text(self, text, encoding=None):
            self._fs.write(normalize(str(self.absolute())), text)
            return len(text)

        def mkdir(self, *a, **k):
            self._fs.mkdir(normalize(str(self.absolute())))

    return FP


class FakeOS:
    """The slice of the os module the code under test uses."""

    def __init__(self, fs):
        self._fs = fs
        self.path = posixpath
        self.sep = "/"

    def walk(self, top):
        return self._fs.walk(str(top))

    def getcwd(self):
        return self._fs.cwd

    def relpath(self, path, start="."):
        """os.path.relpath against the FAKE working directory (the real one would leak into root-relative keys)."""
        return posixpath.relpath(self._fs.abspath(path), self._fs.abspath(start))

    def getenv(self, *a):
        return os.getenv(*a)
