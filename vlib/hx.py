"""Helpers imported by harness modules (run inside the CrossHair worker)."""
import json
import os

PARAM = json.loads(os.environ.get("VERIF_PARAM", "null") or "null")
WITNESS = bool(PARAM.get("__witness__")) if isinstance(PARAM, dict) else False


def param(key=None, default=None):
    if key is None:
        return PARAM
    if isinstance(PARAM, dict):
        return PARAM.get(key, default)
    return default


def fin(ok, nontrivial=True):
    """Final value of a harness function whose contract is `post: _`.

    Normal mode: the property verdict. Witness mode (reachability twin): False exactly when the end of the
    harness was reached on a non-trivial path, so that CrossHair MUST come back with a counterexample; a twin that is
    confirmed or cannot meet its precondition shows the harness is vacuous.
    """
    if WITNESS:
        return not nontrivial
    return ok


def untraced(fn):
    """Run fn(*a, **k) with CrossHair tracing off (arguments must be concrete)."""
    def wrapper(*a, **k):
        try:
            from crosshair.tracers import NoTracing, is_tracing
        except Exception:
            return fn(*a, **k)
        if is_tracing():
            with NoTracing():
                return fn(*a, **k)
        return fn(*a, **k)
    wrapper.__name__ = getattr(fn, "__name__", "untraced")
    wrapper.__wrapped__ = fn
    return wrapper


# --------------------------------------------------------------------------- S-fmt: opaque figures
class Fig:
    """Duck-typed integer whose (possibly symbolic) value lives in a side table.

    `int.__format__` is C code and forces CrossHair to realise a symbolic int, so code that only compares, adds and
    *formats* a figure gets a Fig: arithmetic/comparison are delegated to the symbolic value, formatting yields an
    opaque marker `\x01<index>:<spec>\x02` that the oracle reads back. Digit rendering itself is trusted (S-fmt).
    """
    table = []

    def __init__(self, v):
        self.i = len(Fig.table)
        Fig.table.append(v)

    @property
    def v(self):
        return Fig.table[self.i]

    @staticmethod
    def val(x):
        return x.v if isinstance(x, Fig) else x

    def __lt__(self, o): return self.v < Fig.val(o)
    def __le__(self, o): return self.v <= Fig.val(o)
    def __gt__(self, o): return self.v > Fig.val(o)
    def __ge__(self, o): return self.v >= Fig.val(o)
    def __eq__(self, o): return self.v == Fig.val(o)
    def __ne__(self, o): return self.v != Fig.val(o)
    def __hash__(self): return self.i
    def __add__(self, o): return Fig(self.v + Fig.val(o))
    def __radd__(self, o): return Fig(Fig.val(o) + self.v)
    def __sub__(self, o): return Fig(self.v - Fig.val(o))
    def __rsub__(self, o): return Fig(Fig.val(o) - self.v)
    def __neg__(self): return Fig(-self.v)
    def __bool__(self): return self.v != 0
    def __format__(self, spec): return f"\x01{self.i}:{spec}\x02"
    def __str__(self): return f"\x01{self.i}:\x02"
    __repr__ = __str__


def fig_markers(text: str):
    """All (index, spec) markers in a rendered string, in order."""
    out = []
    k = 0
    while True:
        a = text.find("\x01", k)
        if a < 0:
            return out
        b = text.find("\x02", a)
        idx, spec = text[a + 1:b].split(":", 1)
        out.append((int(idx), spec))
        k = b + 1


class RecConsole:
    """S-ui: recording stand-in for rich.console.Console (stores what is printed, renders nothing)."""
    instances = []

    def __init__(self, *a, **k):
        self.items = []
        RecConsole.instances.append(self)

    def print(self, *objs, **kw):
        self.items.append((objs, kw))

    def texts(self):
        out = []
        for objs, _ in self.items:
            out.append(" ".join(o.plain if hasattr(o, "plain") else str(o) for o in objs))
        return out


# --------------------------------------------------------------------------- process-state snapshot (hermetic paths)
class StateSnapshot:
    """Baseline of every module-level / class-level mutable object of the codelimit package, taken right after import.
    restore() puts the process back into that state, so that every explored path (and the replay in a fresh process) starts from the
    same 'fresh process' state although CrossHair re-executes paths in one interpreter."""

    def __init__(self, prefix="codelimit"):
        import copy
        import sys
        import types
        self.items = []
        for name, mod in list(sys.modules.items()):
            if not (name == prefix or name.startswith(prefix + ".")) or mod is None:
                continue
            for k, v in list(vars(mod).items()):
                if k.startswith("__"):
                    continue
                if isinstance(v, (dict, list, set)):
                    self.items.append((mod, k, copy.copy(v)))
                elif v is None or isinstance(v, (bool, int, float, str, tuple, frozenset)):
                    self.items.append((mod, k, v))          # module-level scalar state (flags, remembered settings): rebinding the baseline value is harmless
                elif isinstance(v, type) and getattr(v, "__module__", "") == name:
                    for ck, cv in list(vars(v).items()):
                        if ck.startswith("__"):
                            continue
                        if isinstance(cv, (dict, list, set)):
                            self.items.append((v, ck, copy.copy(cv)))
                        elif isinstance(cv, (int, str, bool)) or cv is None:
                            self.items.append((v, ck, cv))

    def restore(self):
        import copy
        for owner, k, base in self.items:
            cur = getattr(owner, k, None) if not isinstance(owner, dict) else None
            if isinstance(base, dict) and isinstance(cur, dict):
                cur.clear()
                cur.update(base)
            elif isinstance(base, list) and isinstance(cur, list):
                cur[:] = base
            elif isinstance(base, set) and isinstance(cur, set):
                cur.clear()
                cur.update(base)
            else:
                try:
                    setattr(owner, k, copy.copy(base))
                except (AttributeError, TypeError):
                    pass
        # objects that appeared after the baseline (e.g. a module-level cache added later) are found by a second scan
        import sys
        known = {(id(o), k) for o, k, _ in self.items}
        for name, mod in list(sys.modules.items()):
            if not (name == "codelimit" or name.startswith("codelimit.")) or mod is None:
                continue
            for k, v in list(vars(mod).items()):
                if not k.startswith("__") and isinstance(v, (dict, list, set)) and (id(mod), k) not in known:
                    v.clear()
                elif callable(getattr(v, "cache_clear", None)):
                    try:
                        v.cache_clear()                     # functools.lru_cache / cache on a module-level function
                    except Exception:
                        pass
