"""Helpers imported by harness modules (run inside the CrossHair worker)."""
import json
import os

PARAM = json.loads(os.environ.get("VERIF_PARAM", "null") or "null")
WITNESS = bool(PARAM.get("__witness__")) if isinstance(PARAM, dict) else False


def param(key=None, default=None):
    if key is None:
        return PARAM
    if isinstance(PARAM, dict):
        return PARAM.get(key, default)
    return default


def fin(ok, nontrivial=True):
    """Final value of a harness function whose contract is `post: _`.

    Normal mode: the property verdict. Witness mode (reachability twin): False exactly when the end of the
    harness was reached on a non-trivial path, so that CrossHair MUST come back with a counterexample; a twin that is
    confirmed or cannot meet its precondition shows the harness is vacuous.
    """
    if WITNESS:
        return not nontrivial
    return ok


def untraced(fn):
    """Run fn(*a, **k) with CrossHair tracing off (arguments must be concrete)."""
    def wrapper(*a, **k):
        try:
            from crosshair.tracers import NoTracing, is_tracing
        except Exception:
            return fn(*a, **k)
        if is_tracing():
            with NoTracing():
                return fn(*a, **k)
        return fn(*a, **k)
    wrapper.__name__ = getattr(fn, "__name__", "untraced")
    return wrapper


# --------------------------------------------------------------------------- S-fmt: opaque figures
class Fig:
    """Duck-typed integer whose (possibly symbolic) value lives in a side table.

    `int.__format__` is C code and forces CrossHair to realise a symbolic int, so code that only compares, adds and
    *formats* a figure gets a Fig: arithmetic/comparison are delegated to the symbolic value, formatting yields an
    opaque marker `\x01<index>:<spec>\x02` that the oracle reads back. Digit rendering itself is trusted (S-fmt).
    """
    table = []

    def __init__(self, v):
        self.i = len(Fig.table)
        Fig.table.append(v)

    @property
    def v(self):
        return Fig.table[self.i]

    @staticmethod
    def val(x):
        return x.v if isinstance(x, Fig) else x

    def __lt__(self, o): return self.v < Fig.val(o)
    def __le__(self, o): return self.v <= Fig.val(o)
    def __gt__(self, o): return self.v > Fig.val(o)
    def __ge__(self, o): return self.v >= Fig.val(o)
    def __eq__(self, o): return self.v == Fig.val(o)
    def __ne__(self, o): return self.v != Fig.val(o)
    def __hash__(self): return self.i
    def __add__(self, o): return Fig(self.v + Fig.val(o))
    def __radd__(self, o): return Fig(Fig.val(o) + self.v)
    def __sub__(self, o): return Fig(self.v - Fig.val(o))
    def __rsub__(self, o): return Fig(Fig.val(o) - self.v)
    def __neg__(self): return Fig(-self.v)
    def __bool__(self): return self.v != 0
    def __format__(self, spec): return f"\x01{self.i}:{spec}\x02"
    def __str__(self): return f"\x01{self.i}:\x02"
    __repr__ = __str__


def fig_markers(text: str):
    """All (index, spec) markers in a rendered string, in order."""
    out = []
    k = 0
    while True:
        a = text.find("\x01", k)
        if a < 0:
            return out
        b = text.find("\x02", a)
        idx, spec = text[a + 1:b].split(":", 1)
        out.append((int(idx), spec))
        k = b + 1


class RecConsole:
    """S-ui: recording stand-in for rich.console.Console (stores what is printed, renders nothing)."""
    instances = []

    def __init__(self, *a, **k):
        self.items = []
        RecConsole.instances.append(self)

    def print(self, *objs, **kw):
        self.items.append((objs, kw))

    def texts(self):
        out = []
        for objs, _ in self.items:
            out.append(" ".join(o.plain if hasattr(o, "plain") else str(o) for o in objs))
        return out
