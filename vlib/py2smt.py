"""E2(a): a small AST -> SMT translator for arithmetic kernels of /repo (regenerated from the current source on every run).

Ints are signed bit-vectors of width W (the caller bounds their magnitude so nothing wraps), floats are IEEE-754 binary64 with
round-to-nearest-even, exactly CPython's semantics for `int / int` (correctly rounded quotient; equals fp.div of the converted operands while
both are below 2**53), `float * float`, `float - float`, math.ceil / floor. Unsupported syntax raises Unsupported (reported as unmodelled, never as a verdict).
"""
import ast
import inspect
import textwrap

import z3


class Unsupported(Exception):
    pass


class V:
    def __init__(self, kind, term):
        self.kind, self.term = kind, term  # 'int' | 'float' | 'bool' | 'list'


class Translator:
    def __init__(self, width=40):
        self.W = width
        self.F = z3.Float64()
        self.rm = z3.RNE()
        self.approximations = []     # constructs encoded approximately: unsat verdicts are then NOT claims (only replayed sat models count)

    def ival(self, n):
        return V("int", z3.BitVecVal(n, self.W))

    def to_float(self, v):
        if v.kind == "float":
            return v.term
        if v.kind == "int":
            return z3.fpSignedToFP(self.rm, v.term, self.F)
        raise Unsupported("to_float of " + v.kind)

    def function(self, fn):
        src = textwrap.dedent(inspect.getsource(fn))
        tree = ast.parse(src)
        f = tree.body[0]
        if not isinstance(f, ast.FunctionDef):
            raise Unsupported("not a function")
        return f

    def run(self, fdef, env, calls):
        """Execute a function body: assignments, returns, if/else (merged with ite), nested single-purpose defs (inlined at their calls).
        calls: {dotted name: python callable over V's}."""
        self.calls = calls
        ret = self.block(list(fdef.body), dict(env))
        if ret is None:
            raise Unsupported("no return")
        return ret

    def ite(self, c, a, b):
        if a.kind == "list" and b.kind == "list" and len(a.term) == len(b.term):
            return V("list", [self.ite(c, x, y) for x, y in zip(a.term, b.term)])
        if a.kind != b.kind:
            if {a.kind, b.kind} == {"int", "float"}:
                a, b = V("float", self.to_float(a)), V("float", self.to_float(b))
            else:
                raise Unsupported("branches of different kinds")
        return V(a.kind, z3.If(c, a.term, b.term))

    def block(self, stmts, env):
        """Returns the value returned by the statement list (None if it falls through); env is updated in place."""
        for i, st in enumerate(stmts):
            if isinstance(st, ast.Expr) and isinstance(st.value, ast.Constant):
                continue
            if isinstance(st, ast.Assign):
                val = self.expr(st.value, env)
                for tgt in st.targets:
                    self.assign(tgt, val, env)
            elif isinstance(st, ast.AnnAssign) and st.value is not None:
                self.assign(st.target, self.expr(st.value, env), env)
            elif isinstance(st, ast.Return):
                if st.value is None:
                    raise Unsupported("bare return")
                return self.expr(st.value, env)
            elif isinstance(st, ast.FunctionDef):
                env[st.name] = V("func", (st, dict(env)))
            elif isinstance(st, ast.If):
                c = self.truth(self.expr(st.test, env))
                env_t, env_f = dict(env), dict(env)
                rt = self.block(list(st.body), env_t)
                rf = self.block(list(st.orelse), env_f)
                rest = stmts[i + 1:]
                # continue the rest of the block on each side that fell through, then merge the returned values
                if rt is None:
                    rt = self.block(list(rest), env_t)
                if rf is None:
                    rf = self.block(list(rest), env_f)
                if rt is None or rf is None:
                    raise Unsupported("if without a return on some path at the end of the function")
                return self.ite(c, rt, rf)
            elif isinstance(st, ast.Pass):
                continue
            else:
                raise Unsupported("statement " + type(st).__name__)
        return None

    def assign(self, tgt, val, env):
        if isinstance(tgt, ast.Name):
            env[tgt.id] = val
        elif isinstance(tgt, (ast.Tuple, ast.List)) and val.kind == "list":
            for t, v in zip(tgt.elts, val.term):
                self.assign(t, v, env)
        else:
            raise Unsupported("assignment target")

    def dotted(self, node):
        if isinstance(node, ast.Name):
            return node.id
        if isinstance(node, ast.Attribute):
            return self.dotted(node.value) + "." + node.attr
        raise Unsupported("callee")

    def expr(self, e, env):
        if isinstance(e, ast.Constant):
            if isinstance(e.value, bool):
                return V("bool", z3.BoolVal(e.value))
            if isinstance(e.value, int):
                return self.ival(e.value)
            if isinstance(e.value, float):
                return V("float", z3.FPVal(e.value, self.F))
            raise Unsupported("constant " + repr(e.value))
        if isinstance(e, ast.Name):
            if e.id not in env:
                raise Unsupported("name " + e.id)
            return env[e.id]
        if isinstance(e, (ast.Tuple, ast.List)):
            return V("list", [self.expr(x, env) for x in e.elts])
        if isinstance(e, ast.Subscript):
            base = self.expr(e.value, env)
            idx = e.slice
            if base.kind == "list" and isinstance(idx, ast.Constant) and isinstance(idx.value, int):
                return base.term[idx.value]
            raise Unsupported("subscript")
        if isinstance(e, ast.IfExp):
            c = self.expr(e.test, env)
            a, b = self.expr(e.body, env), self.expr(e.orelse, env)
            if a.kind != b.kind:
                if {a.kind, b.kind} == {"int", "float"}:
                    a, b = V("float", self.to_float(a)), V("float", self.to_float(b))
                else:
                    raise Unsupported("ifexp kinds")
            return V(a.kind, z3.If(self.truth(c), a.term, b.term))
        if isinstance(e, ast.UnaryOp) and isinstance(e.op, ast.USub):
            v = self.expr(e.operand, env)
            return V(v.kind, -v.term) if v.kind == "int" else V("float", z3.fpNeg(v.term))
        if isinstance(e, ast.BinOp):
            return self.binop(e.op, self.expr(e.left, env), self.expr(e.right, env))
        if isinstance(e, ast.Compare) and len(e.ops) == 1:
            return self.compare(e.ops[0], self.expr(e.left, env), self.expr(e.comparators[0], env))
        if isinstance(e, ast.BoolOp):
            vs = [self.truth(self.expr(x, env)) for x in e.values]
            return V("bool", z3.And(vs) if isinstance(e.op, ast.And) else z3.Or(vs))
        if isinstance(e, ast.Call):
            name = self.dotted(e.func)
            args = [self.expr(a, env) for a in e.args]
            if name in env and env[name].kind == "func":       # a nested helper: inline it
                fd, closure = env[name].term
                inner = dict(closure)
                params = [a.arg for a in fd.args.args]
                if len(params) != len(args) or e.keywords:
                    raise Unsupported("call of nested function with keywords/defaults")
                inner.update(dict(zip(params, args)))
                inner[name] = env[name]
                r = self.block(list(fd.body), inner)
                if r is None:
                    raise Unsupported("nested function without return")
                return r
            if name in self.calls:
                return self.calls[name](*args)
            return self.builtin(name, args)
        raise Unsupported("expression " + type(e).__name__)

    def truth(self, v):
        if v.kind == "bool":
            return v.term
        if v.kind == "int":
            return v.term != 0
        raise Unsupported("truth of " + v.kind)

    def binop(self, op, a, b):
        if isinstance(op, ast.Div):
            return V("float", z3.fpDiv(self.rm, self.to_float(a), self.to_float(b)))
        if a.kind == "int" and b.kind == "int":
            if isinstance(op, ast.Add):
                return V("int", a.term + b.term)
            if isinstance(op, ast.Sub):
                return V("int", a.term - b.term)
            if isinstance(op, ast.Mult):
                return V("int", a.term * b.term)
            raise Unsupported("int op " + type(op).__name__)
        x, y = self.to_float(a), self.to_float(b)
        if isinstance(op, ast.Add):
            return V("float", z3.fpAdd(self.rm, x, y))
        if isinstance(op, ast.Sub):
            return V("float", z3.fpSub(self.rm, x, y))
        if isinstance(op, ast.Mult):
            return V("float", z3.fpMul(self.rm, x, y))
        raise Unsupported("float op " + type(op).__name__)

    def compare(self, op, a, b):
        if a.kind == "int" and b.kind == "int":
            t = {ast.Gt: a.term > b.term, ast.GtE: a.term >= b.term, ast.Lt: a.term < b.term, ast.LtE: a.term <= b.term,
                 ast.Eq: a.term == b.term, ast.NotEq: a.term != b.term}.get(type(op))
        else:
            x, y = self.to_float(a), self.to_float(b)
            t = {ast.Gt: z3.fpGT(x, y), ast.GtE: z3.fpGEQ(x, y), ast.Lt: z3.fpLT(x, y), ast.LtE: z3.fpLEQ(x, y),
                 ast.Eq: z3.fpEQ(x, y), ast.NotEq: z3.Not(z3.fpEQ(x, y))}.get(type(op))
        if t is None:
            raise Unsupported("comparison")
        return V("bool", t)

    def builtin(self, name, args):
        name = name.split(".")[-1]
        if name == "sum" and len(args) == 1 and args[0].kind == "list":
            acc = self.ival(0)
            for v in args[0].term:
                acc = self.binop(ast.Add(), acc, v)
            return acc
        if name in ("ceil", "floor", "round", "int", "trunc") and len(args) == 1:
            v = args[0]
            if v.kind == "int":
                return v
            mode = {"ceil": z3.RTP(), "floor": z3.RTN(), "round": z3.RNE(), "int": z3.RTZ(), "trunc": z3.RTZ()}[name]
            return V("int", z3.fpToSBV(mode, v.term, z3.BitVecSort(self.W)))
        if name == "round" and len(args) == 2 and args[0].kind == "float" and args[1].kind == "int" and z3.is_bv_value(args[1].term):
            nd = args[1].term.as_signed_long()
            if 0 <= nd <= 6:
                # round-half-even to nd decimals as roundToIntegral(x * 10^nd) / 10^nd; CPython rounds the exact decimal expansion, which can differ on rare halfway cases
                self.approximations.append(f"round(x, {nd}) as RNE(x*10^{nd})/10^{nd}")
                sc = z3.FPVal(float(10 ** nd), self.F)
                return V("float", z3.fpDiv(self.rm, z3.fpRoundToIntegral(z3.RNE(), z3.fpMul(self.rm, args[0].term, sc)), sc))
        if name in ("max", "min") and len(args) == 2 and args[0].kind == args[1].kind == "int":
            a, b = args[0].term, args[1].term
            return V("int", z3.If(a >= b, a, b) if name == "max" else z3.If(a <= b, a, b))
        if name == "abs" and len(args) == 1 and args[0].kind == "int":
            return V("int", z3.If(args[0].term >= 0, args[0].term, -args[0].term))
        if name == "float" and len(args) == 1:
            return V("float", self.to_float(args[0]))
        raise Unsupported("call " + name)
