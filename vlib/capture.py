"""Capture the (header expression, follow-up expression) pairs each language class really passes to the matcher, by running the
real extract_headers once with get_headers / find_all / starts_with wrapped (DESIGN 2.2), and enumerate the real DFA's states."""
import sys

LANG_NAMES = ["C", "Cpp", "CSharp", "Java", "JavaScript", "TypeScript", "Python"]
LEXER_FOR = {"C": "c", "Cpp": "cpp", "CSharp": "csharp", "Java": "java", "JavaScript": "javascript", "TypeScript": "typescript", "Python": "python"}
EXT_FOR = {"C": "c", "Cpp": "cpp", "CSharp": "cs", "Java": "java", "JavaScript": "js", "TypeScript": "ts", "Python": "py"}


def language(name):
    from codelimit.languages import Languages
    return getattr(Languages, name)


def capture(name):
    """-> list of (expression, followed_by or None) in call order. Raises if the language bypasses get_headers."""
    import codelimit.common.scope.scope_utils as su
    lang = language(name)
    mod = sys.modules[type(lang).__module__]
    pairs = []
    direct = []
    orig_mod_gh = mod.__dict__.get("get_headers")
    orig_find_all, orig_starts = su.find_all, su.starts_with

    def rec_get_headers(tokens, expression, followed_by=None):
        pairs.append((expression, followed_by))
        return []

    def rec_find_all(expression, sequence):
        direct.append(expression)
        return []

    if orig_mod_gh is not None:
        mod.get_headers = rec_get_headers
    su.find_all = rec_find_all
    try:
        lang.extract_headers([])
    finally:
        if orig_mod_gh is not None:
            mod.get_headers = orig_mod_gh
        su.find_all, su.starts_with = orig_find_all, orig_starts
    if direct and not pairs:
        pairs = [(e, None) for e in direct]
    if not pairs:
        raise RuntimeError(f"language {name}: no matcher expression captured (unmodelled way of finding headers)")
    return pairs


def build_dfa(expression):
    from codelimit.common.gsm.Expression import expression_to_nfa, nfa_to_dfa
    dfa = nfa_to_dfa(expression_to_nfa(expression))
    states, index = [], {}

    def visit(s):
        if id(s) in index:
            return
        index[id(s)] = len(states)
        states.append(s)
        for _, tgt in s.transition:
            visit(tgt)
    visit(dfa.start)
    return dfa, states, index


def predicates_of(states):
    """Distinct predicate objects labelling transitions (by identity, as Pattern.predicate_map keys them)."""
    seen, out = set(), []
    for s in states:
        for p, _ in s.transition:
            if id(p) not in seen:
                seen.add(id(p))
                out.append(p)
    return out


def find_balanced(pred, acc=None):
    """Balanced predicates reachable inside a predicate object (And/Or/Not wrap others)."""
    from codelimit.common.token_matching.predicate.Balanced import Balanced
    acc = [] if acc is None else acc
    if isinstance(pred, Balanced):
        acc.append(pred)
    for v in getattr(pred, "__dict__", {}).values():
        if hasattr(v, "accept") and v is not pred:
            find_balanced(v, acc)
    return acc
