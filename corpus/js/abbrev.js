module.exports = abbrev

function abbrev (...args) {
  let list = args
  if (args.length === 1 && (Array.isArray(args[0]) || typeof args[0] === 'string')) {
    list = [].concat(args[0])
  }

  for (let i = 0, l = list.length; i < l; i++) {
    list[i] = typeof list[i] === 'string' ? list[i] : String(list[i])
  }

  // sort them lexicographically, so that they're next to their nearest kin
  list = list.sort(lexSort)

  // walk through each, seeing how much it has in common with the next and previous
  const abbrevs = {}
  let prev = ''
  for (let ii = 0, ll = list.length; ii < ll; ii++) {
    const current = list[ii]
    const next = list[ii + 1] || ''
    let nextMatches = true
    let prevMatches = true
    if (current === next) {
      continue
    }
    let j = 0
    const cl = current.length
    for (; j < cl; j++) {
      const curChar = current.charAt(j)
      nextMatches = nextMatches && curChar === next.charAt(j)
      prevMatches = prevMatches && curChar === prev.charAt(j)
      if (!nextMatches && !prevMatches) {
        j++
        break
      }
    }
    prev = current
    if (j === cl) {
      abbrevs[current] = current
      continue
    }
    for (let a = current.slice(0, j); j <= cl; j++) {
      abbrevs[a] = current
      a += current.charAt(j)
    }
  }
  return abbrevs
}

function lexSort (a, b) {
  return a === b ? 0 : a > b ? 1 : -1
}
