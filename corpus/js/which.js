const { isexe, sync: isexeSync } = require('isexe')
const { join, delimiter, sep, posix } = require('path')

const isWindows = process.platform === 'win32'

// used to check for slashed in commands passed in. always checks for the posix
// seperator on all platforms, and checks for the current separator when not on
// a posix platform. don't use the isWindows check for this since that is mocked
// in tests but we still need the code to actually work when called. that is also
// why it is ignored from coverage.
/* istanbul ignore next */
const rSlash = new RegExp(`[${posix.sep}${sep === posix.sep ? '' : sep}]`.replace(/(\\)/g, '\\$1'))
const rRel = new RegExp(`^\\.${rSlash.source}`)

const getNotFoundError = (cmd) =>
  Object.assign(new Error(`not found: ${cmd}`), { code: 'ENOENT' })

const getPathInfo = (cmd, {
  path: optPath = process.env.PATH,
  pathExt: optPathExt = process.env.PATHEXT,
  delimiter: optDelimiter = delimiter,
}) => {
  // If it has a slash, then we don't bother searching the pathenv.
  // just check the file itself, and that's it.
  const pathEnv = cmd.match(rSlash) ? [''] : [
    // windows always checks the cwd first
    ...(isWindows ? [process.cwd()] : []),
    ...(optPath || /* istanbul ignore next: very unusual */ '').split(optDelimiter),
  ]

  if (isWindows) {
    const pathExtExe = optPathExt ||
      ['.EXE', '.CMD', '.BAT', '.COM'].join(optDelimiter)
    const pathExt = pathExtExe.split(optDelimiter).flatMap((item) => [item, item.toLowerCase()])
    if (cmd.includes('.') && pathExt[0] !== '') {
      pathExt.unshift('')
    }
    return { pathEnv, pathExt, pathExtExe }
  }

  return { pathEnv, pathExt: [''] }
}

const getPathPart = (raw, cmd) => {
  const pathPart = /^".*"$/.test(raw) ? raw.slice(1, -1) : raw
  const prefix = !pathPart && rRel.test(cmd) ? cmd.slice(0, 2) : ''
  return prefix + join(pathPart, cmd)
}

const which = async (cmd, opt = {}) => {
  const { pathEnv, pathExt, pathExtExe } = getPathInfo(cmd, opt)
  const found = []

  for (const envPart of pathEnv) {
    const p = getPathPart(envPart, cmd)

    for (const ext of pathExt) {
      const withExt = p + ext
      const is = await isexe(withExt, { pathExt: pathExtExe, ignoreErrors: true })
      if (is) {
        if (!opt.all) {
          return withExt
        }
        found.push(withExt)
      }
    }
  }

  if (opt.all && found.length) {
    return found
  }

  if (opt.nothrow) {
    return null
  }

  throw getNotFoundError(cmd)
}

const whichSync = (cmd, opt = {}) => {
  const { pathEnv, pathExt, pathExtExe } = getPathInfo(cmd, opt)
  const found = []

  for (const pathEnvPart of pathEnv) {
    const p = getPathPart(pathEnvPart, cmd)

    for (const ext of pathExt) {
      const withExt = p + ext
      const is = isexeSync(withExt, { pathExt: pathExtExe, ignoreErrors: true })
      if (is) {
        if (!opt.all) {
          return withExt
        }
        found.push(withExt)
      }
    }
  }

  if (opt.all && found.length) {
    return found
  }

  if (opt.nothrow) {
    return null
  }

  throw getNotFoundError(cmd)
}

module.exports = which
which.sync = whichSync
