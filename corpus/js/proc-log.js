const META = Symbol('proc-log.meta')
module.exports = {
  META: META,
  output: {
    LEVELS: [
      'standard',
      'error',
      'buffer',
      'flush',
    ],
    KEYS: {
      standard: 'standard',
      error: 'error',
      buffer: 'buffer',
      flush: 'flush',
    },
    standard: function (...args) {
      return process.emit('output', 'standard', ...args)
    },
    error: function (...args) {
      return process.emit('output', 'error', ...args)
    },
    buffer: function (...args) {
      return process.emit('output', 'buffer', ...args)
    },
    flush: function (...args) {
      return process.emit('output', 'flush', ...args)
    },
  },
  log: {
    LEVELS: [
      'notice',
      'error',
      'warn',
      'info',
      'verbose',
      'http',
      'silly',
      'timing',
      'pause',
      'resume',
    ],
    KEYS: {
      notice: 'notice',
      error: 'error',
      warn: 'warn',
      info: 'info',
      verbose: 'verbose',
      http: 'http',
      silly: 'silly',
      timing: 'timing',
      pause: 'pause',
      resume: 'resume',
    },
    error: function (...args) {
      return process.emit('log', 'error', ...args)
    },
    notice: function (...args) {
      return process.emit('log', 'notice', ...args)
    },
    warn: function (...args) {
      return process.emit('log', 'warn', ...args)
    },
    info: function (...args) {
      return process.emit('log', 'info', ...args)
    },
    verbose: function (...args) {
      return process.emit('log', 'verbose', ...args)
    },
    http: function (...args) {
      return process.emit('log', 'http', ...args)
    },
    silly: function (...args) {
      return process.emit('log', 'silly', ...args)
    },
    timing: function (...args) {
      return process.emit('log', 'timing', ...args)
    },
    pause: function () {
      return process.emit('log', 'pause')
    },
    resume: function () {
      return process.emit('log', 'resume')
    },
  },
  time: {
    LEVELS: [
      'start',
      'end',
    ],
    KEYS: {
      start: 'start',
      end: 'end',
    },
    start: function (name, fn) {
      process.emit('time', 'start', name)
      function end () {
        return process.emit('time', 'end', name)
      }
      if (typeof fn === 'function') {
        const res = fn()
        if (res && res.finally) {
          return res.finally(end)
        }
        end()
        return res
      }
      return end
    },
    end: function (name) {
      return process.emit('time', 'end', name)
    },
  },
  input: {
    LEVELS: [
      'start',
      'end',
      'read',
    ],
    KEYS: {
      start: 'start',
      end: 'end',
      read: 'read',
    },
    start: function (fn) {
      process.emit('input', 'start')
      function end () {
        return process.emit('input', 'end')
      }
      if (typeof fn === 'function') {
        const res = fn()
        if (res && res.finally) {
          return res.finally(end)
        }
        end()
        return res
      }
      return end
    },
    end: function () {
      return process.emit('input', 'end')
    },
    read: function (...args) {
      let resolve, reject
      const promise = new Promise((_resolve, _reject) => {
        resolve = _resolve
        reject = _reject
      })
      process.emit('input', 'read', resolve, reject, ...args)
      return promise
    },
  },
}
