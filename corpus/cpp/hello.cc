// Example for use of GNU gettext.
// This file is in the public domain.

// Source code of the C++ program.


// Avoid deprecation warnings from g++ 3.1 or newer.
#if defined __GNUG__ && defined __DEPRECATED
# include <iostream>
using namespace std;
#else
# include <iostream.h>
#endif

// Get setlocale() declaration.
#include <locale.h>

// Get getpid() declaration.
#if defined _WIN32 && !defined __CYGWIN__
/* native Windows API */
# include <process.h>
# define getpid _getpid
#else
/* POSIX API */
# include <unistd.h>
#endif

// Get gettext(), textdomain(), bindtextdomain() declaration.
#include "gettext.h"
// Define shortcut for gettext().
#define _(string) gettext (string)

// Get autosprintf class declaration.
#include "autosprintf.h"
using gnu::autosprintf;

int
main ()
{
  setlocale (LC_ALL, "");
  textdomain ("hello-c++");
  bindtextdomain ("hello-c++", LOCALEDIR);

  cout << _("Hello, world!") << endl;
  cout << autosprintf (_("This program is running as process number %d."),
                       getpid ())
       << endl;
}
