// Example for use of GNU gettext.
// This file is in the public domain.

// Source code of the ISO C++ 20 program.

// Note: The API has changed three years after ISO C++ 20. Code that was working
// fine with g++ 13.1, 13.2 and clang++ 17, 18 (with option -std=gnu++20)
// no longer compiles with g++ 13.3 or newer and clang++ 19 or newer.  Thus the
// need to test __cpp_lib_format, whose value is 202106L for the older compilers
// and 202110L for the newer compilers.  See
// <https://www.open-std.org/jtc1/sc22/wg21/docs/papers/2023/p2905r2.html>.
// The replacement API, presented in
// <https://www.open-std.org/jtc1/sc22/wg21/docs/papers/2023/p2918r2.html>,
// uses a new symbol std::runtime_format, that
//   - does not exist in g++ 13.3,
//   - exists in g++ 14 or newer and clang++ 19 or newer, but requires the
//     option -std=gnu++26.

#include <format>
#include <iostream>
using namespace std;

// Get setlocale() declaration.
#include <locale.h>

// Get getpid() declaration.
#if defined _WIN32 && !defined __CYGWIN__
/* native Windows API */
# include <process.h>
# define getpid _getpid
#else
/* POSIX API */
# include <unistd.h>
#endif

// Get gettext(), textdomain(), bindtextdomain() declaration.
#include "gettext.h"
// Define shortcut for gettext().
#define _(string) gettext (string)

int
main ()
{
  setlocale (LC_ALL, "");
  textdomain ("hello-c++20");
  bindtextdomain ("hello-c++20", LOCALEDIR);

  cout << _("Hello, world!") << endl;
#if __cpp_lib_format <= 202106L
  cout << vformat (_("This program is running as process number {:d}."),
                   make_format_args (getpid ()))
#else
  cout << format (runtime_format (_("This program is running as process number {:d}.")),
                  getpid ())
#endif
       << endl;
}
