// Example for use of GNU gettext.
// This file is in the public domain.

// Source code of the C++ program.

#include <wx/wx.h>
#include <wx/intl.h>

/* Get getpid() declaration.  */
#if defined _WIN32 && !defined __CYGWIN__
/* native Windows API */
# include <process.h>
# define getpid _getpid
#else
/* POSIX API */
# include <unistd.h>
#endif

class MyApp: public wxApp
{
public:
  virtual bool OnInit();
private:
  // wxWidgets has the concept of a "current locale". It is the one returned
  // by wxGetLocale() and implicitly used by wxGetTranslation.
  // But there is no way to explicitly set this current locale! Rather, it is
  // always set to the last constructed locale(!), and is modified when a
  // locale is destroyed. In such a way that the current locale points to
  // invalid memory after you do
  //    wxLocale *a = new wxLocale;
  //    wxLocale *b = new wxLocale;
  //    delete a;
  //    delete b;
  // So, to avoid problems, we use exactly one instance of wxLocale, and keep
  // it alive for the entire application lifetime.
  wxLocale appLocale;
};

class MyFrame: public wxFrame
{
public:
  MyFrame();
};

// This defines the main() function.
IMPLEMENT_APP(MyApp)

bool MyApp::OnInit()
{
  // First, register the base directory where to look up .mo files.
  wxLocale::AddCatalogLookupPathPrefix(wxT(LOCALEDIR));
  // Second, initialize the locale and set the application-wide message domain.
  appLocale.Init();
  appLocale.AddCatalog(wxT("hello-c++-wxwidgets"));
  // Now wxGetLocale() is initialized appropriately.

  // Then only start building the GUI elements of the application.

  // Create the main frame window.
  MyFrame *frame = new MyFrame();

  // Show the frame.
  frame->Show(true);
  SetTopWindow(frame);

  return true;
}

MyFrame::MyFrame()
  : wxFrame(NULL, wxID_ANY, _T("Hello example"))
{
  wxStaticText *label1 =
    new wxStaticText(this, wxID_ANY, _("Hello, world!"));

  wxString label2text =
    wxString::Format(_("This program is running as process number %d."),
                     getpid());
  wxStaticText *label2 =
    new wxStaticText(this, wxID_ANY, label2text);

  wxBoxSizer *topSizer = new wxBoxSizer(wxVERTICAL);
  topSizer->Add(label1);
  topSizer->Add(label2);
  SetSizer(topSizer);
}
