// Example for use of GNU gettext.
// This file is in the public domain.

// Source code of the C++ program.

#include <qapplication.h>
#include <qmainwindow.h>
#include <qlabel.h>
#include <qpushbutton.h>
#include <qstring.h>
#include <qvbox.h>
#include <qhbox.h>
#include <qtextcodec.h>

/* Get getpid() declaration.  */
#if defined _WIN32 && !defined __CYGWIN__
/* native Windows API */
# include <process.h>
# define getpid _getpid
#else
/* POSIX API */
# include <unistd.h>
#endif

int
main (int argc, char *argv[])
{
  // Initializations.

  QApplication application (argc, argv);
#if 0
  GettextTranslator *translator =
    new GettextTranslator (&application, "hello-c++-qt", LOCALEDIR);
#else
  QTranslator *translator = new QTranslator (NULL);
  translator->load (QString ("hello-c++-qt") + "_" + QTextCodec::locale(),
                    PKGLOCALEDIR);
#endif
  application.installTranslator (translator);
#define _(string) application.translate ("", string)

  // Create the GUI elements.

  QMainWindow *window = new QMainWindow ();
  window->setCaption ("Hello example");

  QVBox *panel = new QVBox (window);
  panel->setSpacing (2);

  QLabel *label1 = new QLabel (_("Hello, world!"), panel);

  QString label2text;
  // NOT using QString::sprintf because it doesn't support reordering of
  // arguments.
  //label2text.sprintf (_("This program is running as process number %d"),
  //                    getpid ());
  label2text = _("This program is running as process number %1.").arg(getpid ());
  QLabel *label2 = new QLabel (label2text, panel);

  QHBox *buttonbar = new QHBox (panel);
  QWidget *filler = new QWidget (buttonbar); // makes the button right-aligned
  QPushButton *button = new QPushButton ("OK", buttonbar);
  button->setMaximumWidth (button->sizeHint().width() + 20);
  QObject::connect (button, SIGNAL (clicked ()), &application, SLOT (quit ()));

  panel->resize (panel->sizeHint ());
  window->resize (panel->frameSize ());

  application.setMainWidget (window);

  // Make the GUI elements visible.

  window->show ();

  // Start the event loop.

  return application.exec ();
}
