// Example for use of GNU gettext.
// Copyright (C) 2003 Free Software Foundation, Inc.
// This file is published under the GNU General Public License.

#if HAVE_CONFIG_H
# include <config.h>
#endif

/* Specification.  */
#include "hellowindow.h"

/* Declare i18n.  */
#include <klocale.h>
/* Declare KMainWindow.  */
#include <kmainwindow.h>
/* Declare QLabel.  */
#include <qlabel.h>
/* Declare QPushButton.  */
#include <qpushbutton.h>
/* Declare QString.  */
#include <qstring.h>
/* Declare QVBox.  */
#include <qvbox.h>
/* Declare QHBox.  */
#include <qhbox.h>

/* Get getpid() declaration.  */
#if defined _WIN32 && !defined __CYGWIN__
/* native Windows API */
# include <process.h>
# define getpid _getpid
#else
/* POSIX API */
# include <unistd.h>
#endif

// The main window widget.

HelloMainWindow::HelloMainWindow (QWidget * parent, const char * name)
  : KMainWindow (parent, name)
{
  setCaption ("Hello example");

  QVBox *panel = new QVBox (this);
  panel->setSpacing (2);

  QLabel *label1 = new QLabel (i18n ("Hello, world!"), panel);

  QString label2text;
  // NOT using QString::sprintf because it doesn't support reordering of
  // arguments.
  //label2text.sprintf (i18n ("This program is running as process number %d"),
  //                    getpid ());
  label2text = i18n ("This program is running as process number %1.").arg(getpid ());
  QLabel *label2 = new QLabel (label2text, panel);

  QHBox *buttonbar = new QHBox (panel);
  QWidget *filler = new QWidget (buttonbar); // makes the button right-aligned
  button = new QPushButton ("OK", buttonbar);
  button->setMaximumWidth (button->sizeHint().width() + 20);

  panel->resize (panel->sizeHint ());
  resize (panel->frameSize ());
}

HelloMainWindow::~HelloMainWindow ()
{
}
