/**
 * @license
 * Copyright 2020 Google Inc.
 * SPDX-License-Identifier: Apache-2.0
 */

import type {BrowserPlatform} from '@puppeteer/browsers';
import {
  install,
  Browser,
  resolveBuildId,
  detectBrowserPlatform,
} from '@puppeteer/browsers';
import type {
  ChromeHeadlessShellSettings,
  ChromeSettings,
  FirefoxSettings,
} from 'puppeteer-core';
import {PUPPETEER_REVISIONS} from 'puppeteer-core/internal/revisions.js';

import {getConfiguration} from '../getConfiguration.js';

async function downloadBrowser({
  browser,
  configuration,
  cacheDir,
  platform,
}: {
  browser: Extract<
    Browser,
    Browser.CHROME | Browser.CHROMEHEADLESSSHELL | Browser.FIREFOX
  >;
  configuration: ChromeSettings | ChromeHeadlessShellSettings | FirefoxSettings;
  platform: BrowserPlatform;
  cacheDir: string;
}) {
  const unresolvedBuildId =
    configuration?.version || PUPPETEER_REVISIONS[browser] || 'latest';
  const baseUrl = configuration?.downloadBaseUrl;
  const buildId = await resolveBuildId(browser, platform, unresolvedBuildId);

  try {
    const result = await install({
      browser,
      cacheDir,
      platform,
      buildId,
      downloadProgressCallback: 'default',
      baseUrl,
      buildIdAlias:
        buildId !== unresolvedBuildId ? unresolvedBuildId : undefined,
    });
    logPolitely(`${browser} (${result.buildId}) downloaded to ${result.path}`);
  } catch (error) {
    throw new Error(
      `ERROR: Failed to set up ${browser} v${buildId}! Set "PUPPETEER_SKIP_DOWNLOAD" env variable to skip download.`,
      {
        cause: error,
      },
    );
  }
}

/**
 * @internal
 */
export async function downloadBrowsers(): Promise<void> {
  overrideProxy();

  const configuration = getConfiguration();
  if (configuration.skipDownload) {
    logPolitely('**INFO** Skipping downloading browsers as instructed.');
    return;
  }

  const platform = detectBrowserPlatform();
  if (!platform) {
    throw new Error('The current platform is not supported.');
  }
  const cacheDir = configuration.cacheDirectory!;

  const installationJobs = [];
  if (configuration.chrome?.skipDownload) {
    logPolitely('**INFO** Skipping Chrome download as instructed.');
  } else {
    const browser = Browser.CHROME;
    installationJobs.push(
      downloadBrowser({
        browser,
        configuration: configuration[browser] ?? {},
        cacheDir,
        platform,
      }),
    );
  }

  if (configuration['chrome-headless-shell']?.skipDownload) {
    logPolitely('**INFO** Skipping Chrome download as instructed.');
  } else {
    const browser = Browser.CHROMEHEADLESSSHELL;

    installationJobs.push(
      downloadBrowser({
        browser,
        configuration: configuration[browser] ?? {},
        cacheDir,
        platform,
      }),
    );
  }

  if (configuration.firefox?.skipDownload) {
    logPolitely('**INFO** Skipping Firefox download as instructed.');
  } else {
    const browser = Browser.FIREFOX;

    installationJobs.push(
      downloadBrowser({
        browser,
        configuration: configuration[browser] ?? {},
        cacheDir,
        platform,
      }),
    );
  }

  try {
    await Promise.all(installationJobs);
  } catch (error) {
    console.error(error);
    process.exit(1);
  }
}

/**
 * @internal
 */
function logPolitely(toBeLogged: unknown): void {
  const logLevel = process.env['npm_config_loglevel'] || '';
  const logLevelDisplay = ['silent', 'error', 'warn'].indexOf(logLevel) > -1;

  if (!logLevelDisplay) {
    console.log(toBeLogged);
  }
}

/**
 * @internal
 */
function overrideProxy() {
  // Override current environment proxy settings with npm configuration, if any.
  const NPM_HTTPS_PROXY =
    process.env['npm_config_https_proxy'] || process.env['npm_config_proxy'];
  const NPM_HTTP_PROXY =
    process.env['npm_config_http_proxy'] || process.env['npm_config_proxy'];
  const NPM_NO_PROXY = process.env['npm_config_no_proxy'];

  if (NPM_HTTPS_PROXY) {
    process.env['HTTPS_PROXY'] = NPM_HTTPS_PROXY;
  }
  if (NPM_HTTP_PROXY) {
    process.env['HTTP_PROXY'] = NPM_HTTP_PROXY;
  }
  if (NPM_NO_PROXY) {
    process.env['NO_PROXY'] = NPM_NO_PROXY;
  }
}
