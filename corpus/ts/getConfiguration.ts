/**
 * @license
 * Copyright 2023 Google Inc.
 * SPDX-License-Identifier: Apache-2.0
 */

import {homedir} from 'node:os';
import {join} from 'node:path';

import {cosmiconfigSync} from 'cosmiconfig';
import type {
  ChromeHeadlessShellSettings,
  ChromeSettings,
  Configuration,
  FirefoxSettings,
  SupportedBrowser,
} from 'puppeteer-core';

function getBooleanEnvVar(name: string): boolean | undefined {
  const env = process.env[name];
  if (env === undefined) {
    return;
  }
  switch (env.toLowerCase()) {
    case '':
    case '0':
    case 'false':
    case 'off':
      return false;
    default:
      return true;
  }
}

/**
 * @internal
 */
function isSupportedBrowser(product: unknown): product is SupportedBrowser {
  switch (product) {
    case 'chrome':
    case 'firefox':
      return true;
    default:
      return false;
  }
}

/**
 * @internal
 */
function getDefaultBrowser(browser: unknown): SupportedBrowser {
  // Validate configuration.
  if (browser && !isSupportedBrowser(browser)) {
    throw new Error(`Unsupported browser ${browser}`);
  }
  switch (browser) {
    case 'firefox':
      return 'firefox';
    default:
      return 'chrome';
  }
}

/**
 * @internal
 */
function getLogLevel(logLevel: unknown): 'silent' | 'error' | 'warn' {
  switch (logLevel) {
    case 'silent':
      return 'silent';
    case 'error':
      return 'error';
    default:
      return 'warn';
  }
}

function getBrowserSetting(
  browser: 'chrome' | 'chrome-headless-shell' | 'firefox',
  configuration: Configuration,
  defaultConfig:
    | ChromeSettings
    | ChromeHeadlessShellSettings
    | FirefoxSettings = {},
): ChromeSettings | ChromeHeadlessShellSettings | FirefoxSettings {
  if (configuration.skipDownload) {
    return {
      skipDownload: true,
    };
  }
  const browserSetting:
    | ChromeSettings
    | ChromeHeadlessShellSettings
    | FirefoxSettings = {};
  const browserEnvName = browser.replaceAll('-', '_').toUpperCase();

  browserSetting.version =
    process.env[`PUPPETEER_${browserEnvName}_VERSION`] ??
    configuration[browser]?.version ??
    defaultConfig.version;
  browserSetting.downloadBaseUrl =
    process.env[`PUPPETEER_${browserEnvName}_DOWNLOAD_BASE_URL`] ??
    configuration[browser]?.downloadBaseUrl ??
    defaultConfig.downloadBaseUrl;

  browserSetting.skipDownload =
    getBooleanEnvVar(`PUPPETEER_${browserEnvName}_SKIP_DOWNLOAD`) ??
    getBooleanEnvVar(`PUPPETEER_SKIP_${browserEnvName}_DOWNLOAD`) ??
    configuration[browser]?.skipDownload ??
    defaultConfig.skipDownload;

  return browserSetting;
}

/**
 * @internal
 */
export const getConfiguration = (): Configuration => {
  const result = cosmiconfigSync('puppeteer', {
    searchStrategy: 'global',
  }).search();
  const configuration: Configuration = result ? {...result.config} : {};

  configuration.logLevel = getLogLevel(
    process.env['PUPPETEER_LOGLEVEL'] ?? configuration.logLevel,
  );

  // Merging environment variables.
  configuration.defaultBrowser = getDefaultBrowser(
    process.env['PUPPETEER_BROWSER'] ?? configuration.defaultBrowser,
  );

  configuration.executablePath =
    process.env['PUPPETEER_EXECUTABLE_PATH'] ?? configuration.executablePath;

  // Default to skipDownload if executablePath is set
  if (configuration.executablePath) {
    configuration.skipDownload = true;
  }

  // Set skipDownload explicitly or from default
  configuration.skipDownload =
    getBooleanEnvVar('PUPPETEER_SKIP_DOWNLOAD') ?? configuration.skipDownload;

  // Prepare variables used in browser downloading
  configuration.chrome = getBrowserSetting('chrome', configuration);
  configuration['chrome-headless-shell'] = getBrowserSetting(
    'chrome-headless-shell',
    configuration,
  );
  configuration.firefox = getBrowserSetting('firefox', configuration, {
    skipDownload: true,
  });

  configuration.cacheDirectory =
    process.env['PUPPETEER_CACHE_DIR'] ??
    configuration.cacheDirectory ??
    join(homedir(), '.cache', 'puppeteer');

  configuration.temporaryDirectory =
    process.env['PUPPETEER_TMP_DIR'] ?? configuration.temporaryDirectory;

  configuration.experiments ??= {};

  return configuration;
};
