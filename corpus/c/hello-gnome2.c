/* Example for use of GNU gettext.
   This file is in the public domain.

   Source code of the C program.  */


/* Get GNOME declarations.  */
#include <gnome.h>

/* Get getpid() declaration.  */
#if defined _WIN32 && !defined __CYGWIN__
/* native Windows API */
# include <process.h>
# define getpid _getpid
#else
/* POSIX API */
# include <unistd.h>
#endif

static void
quit_callback (GtkWidget *widget, void *data)
{
  gtk_main_quit ();
}

int
main (int argc, char *argv[])
{
  GtkWidget *window;
  GtkWidget *panel;
  GtkWidget *label1;
  GtkWidget *label1aligned;
  GtkWidget *label2;
  GtkWidget *label2aligned;
  GtkWidget *button;
  GtkWidget *buttonbar;

  /* Initializations.  */

  gnome_init (PACKAGE, VERSION, argc, argv);
  textdomain ("hello-c-gnome2");
  bindtextdomain ("hello-c-gnome2", LOCALEDIR);

  /* Create the GUI elements.  */

  window = gnome_app_new ("hello-c-gnome", "Hello example");
  gtk_widget_realize (window);
  gtk_signal_connect (GTK_OBJECT (window), "delete_event",
                      GTK_SIGNAL_FUNC (quit_callback), NULL);

  label1 = gtk_label_new (_("Hello, world!"));

  label1aligned = gtk_alignment_new (0.0, 0.5, 0, 0);
  gtk_container_add (GTK_CONTAINER (label1aligned), label1);

  label2 = gtk_label_new (g_strdup_printf (_("This program is running as process number %d."), getpid ()));

  label2aligned = gtk_alignment_new (0.0, 0.5, 0, 0);
  gtk_container_add (GTK_CONTAINER (label2aligned), label2);

  button = gtk_button_new_with_label ("OK");
  gtk_signal_connect (GTK_OBJECT (button), "clicked",
                      GTK_SIGNAL_FUNC (quit_callback), NULL);

  buttonbar = gtk_hbutton_box_new ();
  gtk_button_box_set_layout (GTK_BUTTON_BOX (buttonbar), GTK_BUTTONBOX_END);
  gtk_box_pack_start_defaults (GTK_BOX (buttonbar), button);

  panel = gtk_vbox_new (FALSE, GNOME_PAD_SMALL);
  gtk_box_pack_start_defaults (GTK_BOX (panel), label1aligned);
  gtk_box_pack_start_defaults (GTK_BOX (panel), label2aligned);
  gtk_box_pack_start_defaults (GTK_BOX (panel), buttonbar);

  gnome_app_set_contents (GNOME_APP (window), panel);

  /* Make the GUI elements visible.  */

  gtk_widget_show (label1);
  gtk_widget_show (label1aligned);
  gtk_widget_show (label2);
  gtk_widget_show (label2aligned);
  gtk_widget_show (button);
  gtk_widget_show (buttonbar);
  gtk_widget_show (panel);
  gtk_widget_show (window);

  /* Start the event loop.  */

  gtk_main ();

  return 0;
}
