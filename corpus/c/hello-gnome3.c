/* Example for use of GNU gettext.
   This file is in the public domain.

   Source code of the C program.  */


/* Get GTK declarations.  */
#include <gtk/gtk.h>
#include <glib/gi18n.h>

/* Get exit() declaration.  */
#include <stdlib.h>

/* Get getpid() declaration.  */
#if defined _WIN32 && !defined __CYGWIN__
/* native Windows API */
# include <process.h>
# define getpid _getpid
#else
/* POSIX API */
# include <unistd.h>
#endif

#define UI_PATH "/org/gnu/gettext/examples/hello/hello.ui"
#define APPLICATION_ID "org.gnu.gettext.examples.hello"

/* An ad-hoc struct for managing the main window.
   (Not connected to the GObject type system.)  */
struct HelloWindow
{
  GtkWindow *window;
  GtkLabel *label;
  GtkButton *button;
  gsize label_id;
  gchar *labels[3];
};

static void
update_content (struct HelloWindow *hello_window)
{
  gtk_label_set_label (hello_window->label,
                       hello_window->labels[hello_window->label_id]);
  hello_window->label_id =
    (hello_window->label_id + 1) % G_N_ELEMENTS (hello_window->labels);
}

static void
clicked_callback (GtkWidget *widget, struct HelloWindow *hello_window)
{
  update_content (hello_window);
}

static void
activate (GApplication *application, void *data)
{
  GtkBuilder *builder;
  GError *error = NULL;

  /* Instantiate the UI.  */
  builder = gtk_builder_new ();
  if (gtk_builder_add_from_resource (builder, UI_PATH, &error) == 0)
    {
      g_printerr ("Error instantiating UI: %s\n", error->message);
      g_clear_error (&error);
      exit (1);
    }

  struct HelloWindow *hello_window = g_malloc (sizeof (struct HelloWindow));
  hello_window->window = GTK_WINDOW (gtk_builder_get_object (builder, "main_window"));
  hello_window->label = GTK_LABEL (gtk_builder_get_object (builder, "label"));
  hello_window->button = GTK_BUTTON (gtk_builder_get_object (builder, "button"));

  /* Allow Pango markup in the label.  */
  gtk_label_set_use_markup (hello_window->label, TRUE);

  /* Prepare various presentations of the label.  */
  hello_window->label_id = 0;
  gchar *line1 = g_strdup_printf ("<big>%s</big>", _("Hello world!"));
  gchar *line2 =
    g_strdup_printf (_("This program is running as process number %s."),
                     g_strdup_printf ("<b>%d</b>", getpid ()));
  hello_window->labels[0] = g_strdup_printf ("%s\n%s", line1, line2);
  hello_window->labels[1] =
    g_strdup_printf ("<big><u>%s</u></big>", _("This is another text"));
  hello_window->labels[2] =
    g_strdup_printf ("<big><i>%s</i></big>", _("This is yet another text"));

  update_content (hello_window);

  /* Make sure that the application runs for as long as this window is
     still open.  */
  gtk_application_add_window (GTK_APPLICATION (application),
                              GTK_WINDOW (hello_window->window));

  g_signal_connect (hello_window->button, "clicked",
                    G_CALLBACK (clicked_callback), hello_window);
  gtk_window_present (GTK_WINDOW (hello_window->window));
}

int
main (int argc, char *argv[])
{
  GApplication *application;
  int status;

  /* Initializations.  */
  textdomain ("hello-c-gnome3");
  bindtextdomain ("hello-c-gnome3", LOCALEDIR);

  /* Create application.  */
  application =
    G_APPLICATION (gtk_application_new (APPLICATION_ID,
                                        G_APPLICATION_DEFAULT_FLAGS));
  g_signal_connect (application, "activate", G_CALLBACK (activate), NULL);

  /* Start the application.  */
  status = g_application_run (application, argc, argv);
  g_object_unref (application);

  return status;
}
