/* Example for use of GNU gettext.
   This file is in the public domain.

   Source code of the C program.  */


/* Get setlocale() declaration.  */
#include <locale.h>

/* Get printf() declaration.  */
#include <stdio.h>

/* Get getpid() declaration.  */
#if defined _WIN32 && !defined __CYGWIN__
/* native Windows API */
# include <process.h>
# define getpid _getpid
#else
/* POSIX API */
# include <unistd.h>
#endif

/* Get gettext(), textdomain(), bindtextdomain() declaration.  */
#include "gettext.h"
/* Define shortcut for gettext().  */
#define _(string) gettext (string)

int
main ()
{
  setlocale (LC_ALL, "");
  textdomain ("hello-c");
  bindtextdomain ("hello-c", LOCALEDIR);

  printf ("%s\n", _("Hello, world!"));
  printf (_("This program is running as process number %d."), getpid ());
  putchar ('\n');

  return 0;
}
