"""Conversion functions between RGB and other color systems.

This modules provides two functions for each color system ABC:

  rgb_to_abc(r, g, b) --> a, b, c
  abc_to_rgb(a, b, c) --> r, g, b

All inputs and outputs are triples of floats in the range [0.0...1.0]
(with the exception of I and Q, which covers a slightly larger range).
Inputs outside the valid range may cause exceptions or invalid outputs.

Supported color systems:
RGB: Red, Green, Blue components
YIQ: Luminance, Chrominance (used by composite video signals)
HLS: Hue, Luminance, Saturation
HSV: Hue, Saturation, Value
"""

# References:
# http://en.wikipedia.org/wiki/YIQ
# http://en.wikipedia.org/wiki/HLS_color_space
# http://en.wikipedia.org/wiki/HSV_color_space

__all__ = ["rgb_to_yiq","yiq_to_rgb","rgb_to_hls","hls_to_rgb",
           "rgb_to_hsv","hsv_to_rgb"]

# Some floating point constants

ONE_THIRD = 1.0/3.0
ONE_SIXTH = 1.0/6.0
TWO_THIRD = 2.0/3.0

# YIQ: used by composite video signals (linear combinations of RGB)
# Y: perceived grey level (0.0 == black, 1.0 == white)
# I, Q: color components
#
# There are a great many versions of the constants used in these formulae.
# The ones in this library uses constants from the FCC version of NTSC.

def rgb_to_yiq(r, g, b):
    y = 0.30*r + 0.59*g + 0.11*b
    i = 0.74*(r-y) - 0.27*(b-y)
    q = 0.48*(r-y) + 0.41*(b-y)
    return (y, i, q)

def yiq_to_rgb(y, i, q):
    # r = y + (0.27*q + 0.41*i) / (0.74*0.41 + 0.27*0.48)
    # b = y + (0.74*q - 0.48*i) / (0.74*0.41 + 0.27*0.48)
    # g = y - (0.30*(r-y) + 0.11*(b-y)) / 0.59

    r = y + 0.9468822170900693*i + 0.6235565819861433*q
    g = y - 0.27478764629897834*i - 0.6356910791873801*q
    b = y - 1.1085450346420322*i + 1.7090069284064666*q

    if r < 0.0:
        r = 0.0
    if g < 0.0:
        g = 0.0
    if b < 0.0:
        b = 0.0
    if r > 1.0:
        r = 1.0
    if g > 1.0:
        g = 1.0
    if b > 1.0:
        b = 1.0
    return (r, g, b)


# HLS: Hue, Luminance, Saturation
# H: position in the spectrum
# L: color lightness
# S: color saturation

def rgb_to_hls(r, g, b):
    maxc = max(r, g, b)
    minc = min(r, g, b)
    sumc = (maxc+minc)
    rangec = (maxc-minc)
    l = sumc/2.0
    if minc == maxc:
        return 0.0, l, 0.0
    if l <= 0.5:
        s = rangec / sumc
    else:
        s = rangec / (2.0-sumc)
    rc = (maxc-r) / rangec
    gc = (maxc-g) / rangec
    bc = (maxc-b) / rangec
    if r == maxc:
        h = bc-gc
    elif g == maxc:
        h = 2.0+rc-bc
    else:
        h = 4.0+gc-rc
    h = (h/6.0) % 1.0
    return h, l, s

def hls_to_rgb(h, l, s):
    if s == 0.0:
        return l, l, l
    if l <= 0.5:
        m2 = l * (1.0+s)
    else:
        m2 = l+s-(l*s)
    m1 = 2.0*l - m2
    return (_v(m1, m2, h+ONE_THIRD), _v(m1, m2, h), _v(m1, m2, h-ONE_THIRD))

def _v(m1, m2, hue):
    hue = hue % 1.0
    if hue < ONE_SIXTH:
        return m1 + (m2-m1)*hue*6.0
    if hue < 0.5:
        return m2
    if hue < TWO_THIRD:
        return m1 + (m2-m1)*(TWO_THIRD-hue)*6.0
    return m1


# HSV: Hue, Saturation, Value
# H: position in the spectrum
# S: color saturation ("purity")
# V: color brightness

def rgb_to_hsv(r, g, b):
    maxc = max(r, g, b)
    minc = min(r, g, b)
    rangec = (maxc-minc)
    v = maxc
    if minc == maxc:
        return 0.0, 0.0, v
    s = rangec / maxc
    rc = (maxc-r) / rangec
    gc = (maxc-g) / rangec
    bc = (maxc-b) / rangec
    if r == maxc:
        h = bc-gc
    elif g == maxc:
        h = 2.0+rc-bc
    else:
        h = 4.0+gc-rc
    h = (h/6.0) % 1.0
    return h, s, v

def hsv_to_rgb(h, s, v):
    if s == 0.0:
        return v, v, v
    i = int(h*6.0) # XXX assume int() truncates!
    f = (h*6.0) - i
    p = v*(1.0 - s)
    q = v*(1.0 - s*f)
    t = v*(1.0 - s*(1.0-f))
    i = i%6
    if i == 0:
        return v, t, p
    if i == 1:
        return q, v, p
    if i == 2:
        return p, v, t
    if i == 3:
        return p, q, v
    if i == 4:
        return t, p, v
    if i == 5:
        return v, p, q
    # Cannot get here
