"""Convert a NT pathname to a file URL and vice versa.

This module only exists to provide OS-specific code
for urllib.requests, thus do not use directly.
"""
# Testing is done through test_urllib.

def url2pathname(url):
    """OS-specific conversion from a relative URL of the 'file' scheme
    to a file system path; not recommended for general use."""
    # e.g.
    #   ///C|/foo/bar/spam.foo
    # and
    #   ///C:/foo/bar/spam.foo
    # become
    #   C:\foo\bar\spam.foo
    import string, urllib.parse
    # Windows itself uses ":" even in URLs.
    url = url.replace(':', '|')
    if not '|' in url:
        # No drive specifier, just convert slashes
        if url[:4] == '////':
            # path is something like ////host/path/on/remote/host
            # convert this to \\host\path\on\remote\host
            # (notice halving of slashes at the start of the path)
            url = url[2:]
        components = url.split('/')
        # make sure not to convert quoted slashes :-)
        return urllib.parse.unquote('\\'.join(components))
    comp = url.split('|')
    if len(comp) != 2 or comp[0][-1] not in string.ascii_letters:
        error = 'Bad URL: ' + url
        raise OSError(error)
    drive = comp[0][-1].upper()
    components = comp[1].split('/')
    path = drive + ':'
    for comp in components:
        if comp:
            path = path + '\\' + urllib.parse.unquote(comp)
    # Issue #11474 - handing url such as |c/|
    if path.endswith(':') and url.endswith('/'):
        path += '\\'
    return path

def pathname2url(p):
    """OS-specific conversion from a file system path to a relative URL
    of the 'file' scheme; not recommended for general use."""
    # e.g.
    #   C:\foo\bar\spam.foo
    # becomes
    #   ///C:/foo/bar/spam.foo
    import urllib.parse
    # First, clean up some special forms. We are going to sacrifice
    # the additional information anyway
    if p[:4] == '\\\\?\\':
        p = p[4:]
        if p[:4].upper() == 'UNC\\':
            p = '\\' + p[4:]
        elif p[1:2] != ':':
            raise OSError('Bad path: ' + p)
    if not ':' in p:
        # No drive specifier, just convert slashes and quote the name
        if p[:2] == '\\\\':
        # path is something like \\host\path\on\remote\host
        # convert this to ////host/path/on/remote/host
        # (notice doubling of slashes at the start of the path)
            p = '\\\\' + p
        components = p.split('\\')
        return urllib.parse.quote('/'.join(components))
    comp = p.split(':', maxsplit=2)
    if len(comp) != 2 or len(comp[0]) > 1:
        error = 'Bad path: ' + p
        raise OSError(error)

    drive = urllib.parse.quote(comp[0].upper())
    components = comp[1].split('\\')
    path = '///' + drive + ':'
    for comp in components:
        if comp:
            path = path + '/' + urllib.parse.quote(comp)
    return path
