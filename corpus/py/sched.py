"""A generally useful event scheduler class.

Each instance of this class manages its own queue.
No multi-threading is implied; you are supposed to hack that
yourself, or use a single instance per application.

Each instance is parametrized with two functions, one that is
supposed to return the current time, one that is supposed to
implement a delay.  You can implement real-time scheduling by
substituting time and sleep from built-in module time, or you can
implement simulated time by writing your own functions.  This can
also be used to integrate scheduling with STDWIN events; the delay
function is allowed to modify the queue.  Time can be expressed as
integers or floating point numbers, as long as it is consistent.

Events are specified by tuples (time, priority, action, argument, kwargs).
As in UNIX, lower priority numbers mean higher priority; in this
way the queue can be maintained as a priority queue.  Execution of the
event means calling the action function, passing it the argument
sequence in "argument" (remember that in Python, multiple function
arguments are be packed in a sequence) and keyword parameters in "kwargs".
The action function may be an instance method so it
has another way to reference private data (besides global variables).
"""

import time
import heapq
from collections import namedtuple
from itertools import count
import threading
from time import monotonic as _time

__all__ = ["scheduler"]

Event = namedtuple('Event', 'time, priority, sequence, action, argument, kwargs')
Event.time.__doc__ = ('''Numeric type compatible with the return value of the
timefunc function passed to the constructor.''')
Event.priority.__doc__ = ('''Events scheduled for the same time will be executed
in the order of their priority.''')
Event.sequence.__doc__ = ('''A continually increasing sequence number that
    separates events if time and priority are equal.''')
Event.action.__doc__ = ('''Executing the event means executing
action(*argument, **kwargs)''')
Event.argument.__doc__ = ('''argument is a sequence holding the positional
arguments for the action.''')
Event.kwargs.__doc__ = ('''kwargs is a dictionary holding the keyword
arguments for the action.''')

_sentinel = object()

class scheduler:

    def __init__(self, timefunc=_time, delayfunc=time.sleep):
        """Initialize a new instance, passing the time and delay
        functions"""
        self._queue = []
        self._lock = threading.RLock()
        self.timefunc = timefunc
        self.delayfunc = delayfunc
        self._sequence_generator = count()

    def enterabs(self, time, priority, action, argument=(), kwargs=_sentinel):
        """Enter a new event in the queue at an absolute time.

        Returns an ID for the event which can be used to remove it,
        if necessary.

        """
        if kwargs is _sentinel:
            kwargs = {}

        with self._lock:
            event = Event(time, priority, next(self._sequence_generator),
                          action, argument, kwargs)
            heapq.heappush(self._queue, event)
        return event # The ID

    def enter(self, delay, priority, action, argument=(), kwargs=_sentinel):
        """A variant that specifies the time as a relative time.

        This is actually the more commonly used interface.

        """
        time = self.timefunc() + delay
        return self.enterabs(time, priority, action, argument, kwargs)

    def cancel(self, event):
        """Remove an event from the queue.

        This must be presented the ID as returned by enter().
        If the event is not in the queue, this raises ValueError.

        """
        with self._lock:
            self._queue.remove(event)
            heapq.heapify(self._queue)

    def empty(self):
        """Check whether the queue is empty."""
        with self._lock:
            return not self._queue

    def run(self, blocking=True):
        """Execute events until the queue is empty.
        If blocking is False executes the scheduled events due to
        expire soonest (if any) and then return the deadline of the
        next scheduled call in the scheduler.

        When there is a positive delay until the first event, the
        delay function is called and the event is left in the queue;
        otherwise, the event is removed from the queue and executed
        (its action function is called, passing it the argument).  If
        the delay function returns prematurely, it is simply
        restarted.

        It is legal for both the delay function and the action
        function to modify the queue or to raise an exception;
        exceptions are not caught but the scheduler's state remains
        well-defined so run() may be called again.

        A questionable hack is added to allow other threads to run:
        just after an event is executed, a delay of 0 is executed, to
        avoid monopolizing the CPU when other threads are also
        runnable.

        """
        # localize variable access to minimize overhead
        # and to improve thread safety
        lock = self._lock
        q = self._queue
        delayfunc = self.delayfunc
        timefunc = self.timefunc
        pop = heapq.heappop
        while True:
            with lock:
                if not q:
                    break
                (time, priority, sequence, action,
                 argument, kwargs) = q[0]
                now = timefunc()
                if time > now:
                    delay = True
                else:
                    delay = False
                    pop(q)
            if delay:
                if not blocking:
                    return time - now
                delayfunc(time - now)
            else:
                action(*argument, **kwargs)
                delayfunc(0)   # Let other threads run

    @property
    def queue(self):
        """An ordered list of upcoming events.

        Events are named tuples with fields for:
            time, priority, action, arguments, kwargs

        """
        # Use heapq to sort the queue rather than using 'sorted(self._queue)'.
        # With heapq, two events scheduled at the same time will show in
        # the actual order they would be retrieved.
        with self._lock:
            events = self._queue[:]
        return list(map(heapq.heappop, [events]*len(events)))
