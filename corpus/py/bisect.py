"""Bisection algorithms."""


def insort_right(a, x, lo=0, hi=None, *, key=None):
    """Insert item x in list a, and keep it sorted assuming a is sorted.

    If x is already in a, insert it to the right of the rightmost x.

    Optional args lo (default 0) and hi (default len(a)) bound the
    slice of a to be searched.
    """
    if key is None:
        lo = bisect_right(a, x, lo, hi)
    else:
        lo = bisect_right(a, key(x), lo, hi, key=key)
    a.insert(lo, x)


def bisect_right(a, x, lo=0, hi=None, *, key=None):
    """Return the index where to insert item x in list a, assuming a is sorted.

    The return value i is such that all e in a[:i] have e <= x, and all e in
    a[i:] have e > x.  So if x already appears in the list, a.insert(i, x) will
    insert just after the rightmost x already there.

    Optional args lo (default 0) and hi (default len(a)) bound the
    slice of a to be searched.
    """

    if lo < 0:
        raise ValueError('lo must be non-negative')
    if hi is None:
        hi = len(a)
    # Note, the comparison uses "<" to match the
    # __lt__() logic in list.sort() and in heapq.
    if key is None:
        while lo < hi:
            mid = (lo + hi) // 2
            if x < a[mid]:
                hi = mid
            else:
                lo = mid + 1
    else:
        while lo < hi:
            mid = (lo + hi) // 2
            if x < key(a[mid]):
                hi = mid
            else:
                lo = mid + 1
    return lo


def insort_left(a, x, lo=0, hi=None, *, key=None):
    """Insert item x in list a, and keep it sorted assuming a is sorted.

    If x is already in a, insert it to the left of the leftmost x.

    Optional args lo (default 0) and hi (default len(a)) bound the
    slice of a to be searched.
    """

    if key is None:
        lo = bisect_left(a, x, lo, hi)
    else:
        lo = bisect_left(a, key(x), lo, hi, key=key)
    a.insert(lo, x)

def bisect_left(a, x, lo=0, hi=None, *, key=None):
    """Return the index where to insert item x in list a, assuming a is sorted.

    The return value i is such that all e in a[:i] have e < x, and all e in
    a[i:] have e >= x.  So if x already appears in the list, a.insert(i, x) will
    insert just before the leftmost x already there.

    Optional args lo (default 0) and hi (default len(a)) bound the
    slice of a to be searched.
    """

    if lo < 0:
        raise ValueError('lo must be non-negative')
    if hi is None:
        hi = len(a)
    # Note, the comparison uses "<" to match the
    # __lt__() logic in list.sort() and in heapq.
    if key is None:
        while lo < hi:
            mid = (lo + hi) // 2
            if a[mid] < x:
                lo = mid + 1
            else:
                hi = mid
    else:
        while lo < hi:
            mid = (lo + hi) // 2
            if key(a[mid]) < x:
                lo = mid + 1
            else:
                hi = mid
    return lo


# Overwrite above definitions with a fast C implementation
try:
    from _bisect import *
except ImportError:
    pass

# Create aliases
bisect = bisect_right
insort = insort_right
