// Example for use of GNU gettext.
// This file is in the public domain.
//
// Source code of the Java/QtJambi program.

import java.util.*;
import java.io.*;
import java.text.*;
import com.trolltech.qt.core.*;
import com.trolltech.qt.gui.*;
import gnu.gettext.*;

public class Hello {
  public static void main (String[] args) {
    ResourceBundle catalog = ResourceBundle.getBundle("hello-java-qtjambi");

    QApplication.initialize(args);

    QMainWindow window = new QMainWindow();
    window.setWindowTitle("Hello example");

    QWidget panel = new QWidget();
    QVBoxLayout panelLayout = new QVBoxLayout();
    panelLayout.setSpacing(2);

    QLabel label1 =
      new QLabel(GettextResource.gettext(catalog,"Hello, world!"));
    panelLayout.addWidget(label1);

    QLabel label2 =
      new QLabel(
          MessageFormat.format(
              GettextResource.gettext(catalog,
                  "This program is running as process number {0}."),
              new Object[] { getPid() }));
    panelLayout.addWidget(label2);

    QWidget buttonBar = new QWidget();
    QHBoxLayout buttonBarLayout = new QHBoxLayout();
    QWidget filler = new QWidget(); // makes the button right-aligned
    buttonBarLayout.addWidget(filler);
    QPushButton button = new QPushButton("OK");
    button.setMaximumWidth(button.sizeHint().width()+20);
    button.clicked.connect(window, "close()");
    buttonBarLayout.addWidget(button);
    buttonBar.setLayout(buttonBarLayout);
    panelLayout.addWidget(buttonBar);

    panel.setLayout(panelLayout);

    window.setCentralWidget(panel);

    window.show();

    QApplication.exec();
  }

  /* Return the process ID of the current process.  */
  private static String getPid () {
    try {
      String[] args = new String[] { "/bin/sh", "-c", "echo $PPID" };
      Process p = Runtime.getRuntime().exec(args);
      InputStream p_out = p.getInputStream();
      String s = (new BufferedReader(new InputStreamReader(p_out))).readLine();
      p.destroy();
      if (s != null)
        return s;
    } catch (IOException e) {
      e.printStackTrace();
    }
    return "???";
  }
}
