// Example for use of GNU gettext.
// This file is in the public domain.
//
// Source code of the Java program.

import java.util.*;
import java.io.*;
import java.text.*;
import gnu.gettext.*;

public class Hello {
  public static void main (String[] args) {
    ResourceBundle catalog = ResourceBundle.getBundle("hello-java");
    System.out.println(GettextResource.gettext(catalog,"Hello, world!"));
    System.out.println(
        MessageFormat.format(
            GettextResource.gettext(catalog,
                "This program is running as process number {0}."),
            new Object[] { getPid() }));
  }

  /* Return the process ID of the current process.  */
  private static String getPid () {
    try {
      String[] args = new String[] { "/bin/sh", "-c", "echo $PPID" };
      Process p = Runtime.getRuntime().exec(args);
      InputStream p_out = p.getInputStream();
      String s = (new BufferedReader(new InputStreamReader(p_out))).readLine();
      p.destroy();
      if (s != null)
        return s;
    } catch (IOException e) {
      e.printStackTrace();
    }
    return "???";
  }
}
