// Example for use of GNU gettext.
// This file is in the public domain.
//
// Source code of the Java/AWT program.

import java.util.*;
import java.io.*;
import java.text.*;
import java.awt.*;
import java.awt.event.*;
import gnu.gettext.*;

public class Hello {
  public static void main (String[] args) {
    ResourceBundle catalog = ResourceBundle.getBundle("hello-java-awt");
    Frame frame = new Frame("Hello example");
    frame.addWindowListener(
        new WindowAdapter() {
          public void windowClosing (WindowEvent event) {
            System.exit(0);
          }
        });
    Label label1 = new Label(GettextResource.gettext(catalog,"Hello, world!"));
    Label label2 =
      new Label(
          MessageFormat.format(
              GettextResource.gettext(catalog,
                  "This program is running as process number {0}."),
              new Object[] { getPid() }));
    Button button = new Button("OK");
    button.addActionListener(
        new ActionListener() {
          public void actionPerformed (ActionEvent event) {
            System.exit(0);
          }
        });
    Container labels = new Container();
    labels.setLayout(new GridLayout(2, 1));
    labels.add(label1);
    labels.add(label2);
    Container buttons = new Container();
    buttons.setLayout(new FlowLayout(FlowLayout.RIGHT));
    buttons.add(button);
    frame.setLayout(new BorderLayout());
    frame.add(labels, BorderLayout.CENTER);
    frame.add(buttons, BorderLayout.SOUTH);
    frame.pack();
    frame.setVisible(true);
  }

  /* Return the process ID of the current process.  */
  private static String getPid () {
    try {
      String[] args = new String[] { "/bin/sh", "-c", "echo $PPID" };
      Process p = Runtime.getRuntime().exec(args);
      InputStream p_out = p.getInputStream();
      String s = (new BufferedReader(new InputStreamReader(p_out))).readLine();
      p.destroy();
      if (s != null)
        return s;
    } catch (IOException e) {
      e.printStackTrace();
    }
    return "???";
  }
}
