// Example for use of GNU gettext.
// This file is in the public domain.
//
// Source code of the Java/Swing program.

import java.util.*;
import java.io.*;
import java.text.*;
import java.awt.*;
import java.awt.event.*;
import javax.swing.*;
import gnu.gettext.*;

public class Hello {
  public static void main (String[] args) {
    ResourceBundle catalog = ResourceBundle.getBundle("hello-java-swing");
    JFrame frame = new JFrame("Hello example");
    frame.setDefaultCloseOperation(WindowConstants.EXIT_ON_CLOSE);
    JLabel label1 =
      new JLabel(GettextResource.gettext(catalog,"Hello, world!"));
    JLabel label2 =
      new JLabel(
          MessageFormat.format(
              GettextResource.gettext(catalog,
                  "This program is running as process number {0}."),
              new Object[] { getPid() }));
    JButton button = new JButton("OK");
    button.addActionListener(
        new ActionListener() {
          public void actionPerformed (ActionEvent event) {
            System.exit(0);
          }
        });
    JPanel labels = new JPanel();
    labels.setLayout(new GridLayout(2, 1));
    labels.add(label1);
    labels.add(label2);
    JPanel buttons = new JPanel();
    buttons.setLayout(new FlowLayout(FlowLayout.RIGHT));
    buttons.add(button);
    frame.getContentPane().setLayout(new BorderLayout());
    frame.getContentPane().add(labels, BorderLayout.CENTER);
    frame.getContentPane().add(buttons, BorderLayout.SOUTH);
    frame.pack();
    frame.setVisible(true);
  }

  /* Return the process ID of the current process.  */
  private static String getPid () {
    try {
      String[] args = new String[] { "/bin/sh", "-c", "echo $PPID" };
      Process p = Runtime.getRuntime().exec(args);
      InputStream p_out = p.getInputStream();
      String s = (new BufferedReader(new InputStreamReader(p_out))).readLine();
      p.destroy();
      if (s != null)
        return s;
    } catch (IOException e) {
      e.printStackTrace();
    }
    return "???";
  }
}
