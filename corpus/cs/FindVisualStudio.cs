// Copyright 2017 - Refael Ackermann
// Distributed under MIT style license
// See accompanying file LICENSE at https://github.com/node4good/windows-autoconf

// Usage:
// powershell -ExecutionPolicy Unrestricted -Command "Add-Type -Path Find-VisualStudio.cs; [VisualStudioConfiguration.Main]::PrintJson()"
// This script needs to be compatible with PowerShell v2 to run on Windows 2008R2 and Windows 7.

using System;
using System.Text;
using System.Runtime.InteropServices;
using System.Collections.Generic;

namespace VisualStudioConfiguration
{
    [Flags]
    public enum InstanceState : uint
    {
        None = 0,
        Local = 1,
        Registered = 2,
        NoRebootRequired = 4,
        NoErrors = 8,
        Complete = 4294967295,
    }

    [Guid("6380BCFF-41D3-4B2E-8B2E-BF8A6810C848")]
    [InterfaceType(ComInterfaceType.InterfaceIsIUnknown)]
    [ComImport]
    public interface IEnumSetupInstances
    {

        void Next([MarshalAs(UnmanagedType.U4), In] int celt,
            [MarshalAs(UnmanagedType.LPArray, ArraySubType = UnmanagedType.Interface), Out] ISetupInstance[] rgelt,
            [MarshalAs(UnmanagedType.U4)] out int pceltFetched);

        void Skip([MarshalAs(UnmanagedType.U4), In] int celt);

        void Reset();

        [return: MarshalAs(UnmanagedType.Interface)]
        IEnumSetupInstances Clone();
    }

    [Guid("42843719-DB4C-46C2-8E7C-64F1816EFD5B")]
    [InterfaceType(ComInterfaceType.InterfaceIsIUnknown)]
    [ComImport]
    public interface ISetupConfiguration
    {
    }

    [Guid("26AAB78C-4A60-49D6-AF3B-3C35BC93365D")]
    [InterfaceType(ComInterfaceType.InterfaceIsIUnknown)]
    [ComImport]
    public interface ISetupConfiguration2 : ISetupConfiguration
    {

        [return: MarshalAs(UnmanagedType.Interface)]
        IEnumSetupInstances EnumInstances();

        [return: MarshalAs(UnmanagedType.Interface)]
        ISetupInstance GetInstanceForCurrentProcess();

        [return: MarshalAs(UnmanagedType.Interface)]
        ISetupInstance GetInstanceForPath([MarshalAs(UnmanagedType.LPWStr), In] string path);

        [return: MarshalAs(UnmanagedType.Interface)]
        IEnumSetupInstances EnumAllInstances();
    }

    [Guid("B41463C3-8866-43B5-BC33-2B0676F7F42E")]
    [InterfaceType(ComInterfaceType.InterfaceIsIUnknown)]
    [ComImport]
    public interface ISetupInstance
    {
    }

    [Guid("89143C9A-05AF-49B0-B717-72E218A2185C")]
    [InterfaceType(ComInterfaceType.InterfaceIsIUnknown)]
    [ComImport]
    public interface ISetupInstance2 : ISetupInstance
    {
        [return: MarshalAs(UnmanagedType.BStr)]
        string GetInstanceId();

        [return: MarshalAs(UnmanagedType.Struct)]
        System.Runtime.InteropServices.ComTypes.FILETIME GetInstallDate();

        [return: MarshalAs(UnmanagedType.BStr)]
        string GetInstallationName();

        [return: MarshalAs(UnmanagedType.BStr)]
        string GetInstallationPath();

        [return: MarshalAs(UnmanagedType.BStr)]
        string GetInstallationVersion();

        [return: MarshalAs(UnmanagedType.BStr)]
        string GetDisplayName([MarshalAs(UnmanagedType.U4), In] int lcid);

        [return: MarshalAs(UnmanagedType.BStr)]
        string GetDescription([MarshalAs(UnmanagedType.U4), In] int lcid);

        [return: MarshalAs(UnmanagedType.BStr)]
        string ResolvePath([MarshalAs(UnmanagedType.LPWStr), In] string pwszRelativePath);

        [return: MarshalAs(UnmanagedType.U4)]
        InstanceState GetState();

        [return: MarshalAs(UnmanagedType.SafeArray, SafeArraySubType = VarEnum.VT_UNKNOWN)]
        ISetupPackageReference[] GetPackages();

        ISetupPackageReference GetProduct();

        [return: MarshalAs(UnmanagedType.BStr)]
        string GetProductPath();

        [return: MarshalAs(UnmanagedType.VariantBool)]
        bool IsLaunchable();

        [return: MarshalAs(UnmanagedType.VariantBool)]
        bool IsComplete();

        [return: MarshalAs(UnmanagedType.SafeArray, SafeArraySubType = VarEnum.VT_UNKNOWN)]
        ISetupPropertyStore GetProperties();

        [return: MarshalAs(UnmanagedType.BStr)]
        string GetEnginePath();
    }

    [Guid("DA8D8A16-B2B6-4487-A2F1-594CCCCD6BF5")]
    [InterfaceType(ComInterfaceType.InterfaceIsIUnknown)]
    [ComImport]
    public interface ISetupPackageReference
    {

        [return: MarshalAs(UnmanagedType.BStr)]
        string GetId();

        [return: MarshalAs(UnmanagedType.BStr)]
        string GetVersion();

        [return: MarshalAs(UnmanagedType.BStr)]
        string GetChip();

        [return: MarshalAs(UnmanagedType.BStr)]
        string GetLanguage();

        [return: MarshalAs(UnmanagedType.BStr)]
        string GetBranch();

        [return: MarshalAs(UnmanagedType.BStr)]
        string GetType();

        [return: MarshalAs(UnmanagedType.BStr)]
        string GetUniqueId();

        [return: MarshalAs(UnmanagedType.VariantBool)]
        bool GetIsExtension();
    }

    [Guid("c601c175-a3be-44bc-91f6-4568d230fc83")]
    [InterfaceType(ComInterfaceType.InterfaceIsIUnknown)]
    [ComImport]
    public interface ISetupPropertyStore
    {

        [return: MarshalAs(UnmanagedType.SafeArray, SafeArraySubType = VarEnum.VT_BSTR)]
        string[] GetNames();

        object GetValue([MarshalAs(UnmanagedType.LPWStr), In] string pwszName);
    }

    [Guid("42843719-DB4C-46C2-8E7C-64F1816EFD5B")]
    [CoClass(typeof(SetupConfigurationClass))]
    [ComImport]
    public interface SetupConfiguration : ISetupConfiguration2, ISetupConfiguration
    {
    }

    [Guid("177F0C4A-1CD3-4DE7-A32C-71DBBB9FA36D")]
    [ClassInterface(ClassInterfaceType.None)]
    [ComImport]
    public class SetupConfigurationClass
    {
    }

    public static class Main
    {
        public static void PrintJson()
        {
            ISetupConfiguration query = new SetupConfiguration();
            ISetupConfiguration2 query2 = (ISetupConfiguration2)query;
            IEnumSetupInstances e = query2.EnumAllInstances();

            int pceltFetched;
            ISetupInstance2[] rgelt = new ISetupInstance2[1];
            List<string> instances = new List<string>();
            while (true)
            {
                e.Next(1, rgelt, out pceltFetched);
                if (pceltFetched <= 0)
                {
                    Console.WriteLine(String.Format("[{0}]", string.Join(",", instances.ToArray())));
                    return;
                }

                try
                {
                    instances.Add(InstanceJson(rgelt[0]));
                }
                catch (COMException)
                {
                    // Ignore instances that can't be queried.
                }
            }
        }

        private static string JsonString(string s)
        {
            return "\"" + s.Replace("\\", "\\\\").Replace("\"", "\\\"") + "\"";
        }

        private static string InstanceJson(ISetupInstance2 setupInstance2)
        {
            // Visual Studio component directory:
            // https://docs.microsoft.com/en-us/visualstudio/install/workload-and-component-ids

            StringBuilder json = new StringBuilder();
            json.Append("{");

            string path = JsonString(setupInstance2.GetInstallationPath());
            json.Append(String.Format("\"path\":{0},", path));

            string version = JsonString(setupInstance2.GetInstallationVersion());
            json.Append(String.Format("\"version\":{0},", version));

            List<string> packages = new List<string>();
            foreach (ISetupPackageReference package in setupInstance2.GetPackages())
            {
                string id = JsonString(package.GetId());
                packages.Add(id);
            }
            json.Append(String.Format("\"packages\":[{0}]", string.Join(",", packages.ToArray())));

            json.Append("}");
            return json.ToString();
        }
    }
}
