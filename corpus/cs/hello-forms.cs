// Example for use of GNU gettext.
// This file is in the public domain.
//
// Source code of the C#/Forms program.

using System; /* String, EventHandler */
using GNU.Gettext; /* GettextResourceManager */
using System.Diagnostics; /* Process */
using System.Threading; /* Thread */
using System.Drawing; /* Point, Size */
using System.Windows.Forms; /* Application, Form, Label, Button */

public class Hello {

  private static GettextResourceManager catalog =
    new GettextResourceManager("hello-csharp-forms");

  class HelloWindow : Form {

    private int border;
    private Label label1;
    private Label label2;
    private Button ok;

    public HelloWindow () {
      border = 2;

      label1 = new Label();
      label1.Text = catalog.GetString("Hello, world!");
      label1.ClientSize = new Size(label1.PreferredWidth, label1.PreferredHeight);
      Controls.Add(label1);

      label2 = new Label();
      label2.Text =
        String.Format(
            catalog.GetString("This program is running as process number {0}."),
            Process.GetCurrentProcess().Id);
      label2.ClientSize = new Size(label2.PreferredWidth, label2.PreferredHeight);
      Controls.Add(label2);

      ok = new Button();
      Label okLabel = new Label();
      ok.Text = okLabel.Text = "OK";
      ok.ClientSize = new Size(okLabel.PreferredWidth + 12, okLabel.PreferredHeight + 4);
      ok.Click += new EventHandler(Quit);
      Controls.Add(ok);

      Size total = ComputePreferredSizeWithoutBorder();
      LayoutControls(total.Width, total.Height);
      ClientSize = new Size(border + total.Width + border, border + total.Height + border);
    }

    protected override void OnResize(EventArgs ev) {
      LayoutControls(ClientSize.Width - border - border, ClientSize.Height - border - border);
      base.OnResize(ev);
    }

    // Layout computation, part 1: The preferred size of this panel.
    private Size ComputePreferredSizeWithoutBorder () {
      int totalWidth = Math.Max(Math.Max(label1.PreferredWidth, label2.PreferredWidth),
                                ok.Width);
      int totalHeight = label1.PreferredHeight + label2.PreferredHeight + 6 + ok.Height;
      return new Size(totalWidth, totalHeight);
    }

    // Layout computation, part 2: Determine where to put the sub-controls.
    private void LayoutControls (int totalWidth, int totalHeight) {
      label1.Location = new Point(border, border);
      label2.Location = new Point(border, border + label1.PreferredHeight);
      ok.Location = new Point(border + totalWidth - ok.Width, border + totalHeight - ok.Height);
    }

    private void Quit (Object sender, EventArgs ev) {
      Application.Exit();
    }
  }

  public static void Main () {
    Application.Run(new HelloWindow());
  }
}
