// Example for use of GNU gettext.
// This file is in the public domain.
//
// Source code of the C# program.

using System; /* String, Console */
using GNU.Gettext; /* GettextResourceManager */
using System.Diagnostics; /* Process */

public class Hello {
  public static void Main (String[] args) {
    GettextResourceManager catalog =
      new GettextResourceManager("hello-csharp");
    Console.WriteLine(catalog.GetString("Hello, world!"));
    Console.WriteLine(
        String.Format(
            catalog.GetString("This program is running as process number {0}."),
            Process.GetCurrentProcess().Id));
  }
}
