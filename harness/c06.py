"""C06 — determinism, order independence, isolation. Real code: Scanner.scan_file (and everything below), gsm.Pattern.consume, gsm.Expression (set iteration),
Codebase.add_file/aggregate, Scanner.scan_path.

  h_isolation     : r1 = scan_file(B); scan_file(A) with A a SYMBOLIC token soup (may abort matching midway; exceptions swallowed); r2 = scan_file(B); r1 == r2,
                    also with State._id moved between the runs
  h_consume_order : one real Pattern.consume step from any reachable-or-not configuration gives the same outcome (same successor state / same ambiguity error) for
                    EVERY permutation of the state's transition list - the only place where set-iteration (hash seed) order is observable at match time
  h_add_order     : Codebase.add_file for 3 files in a solver-chosen permutation + aggregate == identity order (totals, tree profiles, file set)
  h_walk_order    : scan_path over the in-memory FS with solver-chosen sibling orders == sorted order (same files, totals, profiles)
param: {"lang", "N", "first"} for isolation / consume_order.
"""
import importlib.util
import os
import sys
from copy import deepcopy

from codelimit.common.Codebase import Codebase
from codelimit.common.Location import Location
from codelimit.common.Measurement import Measurement
from codelimit.common.Scanner import scan_file
from codelimit.common.SourceFileEntry import SourceFileEntry
from codelimit.common.Token import Token
from codelimit.common.gsm.Pattern import Pattern
from codelimit.common.gsm.automata.State import State
from vlib import capture, skel
from vlib.hx import fin, param, untraced

_here = os.path.dirname(os.path.abspath(__file__))


def _load(name, alias):
    spec = importlib.util.spec_from_file_location(alias, os.path.join(_here, name))
    mod = importlib.util.module_from_spec(spec)
    sys.modules[alias] = mod
    spec.loader.exec_module(mod)
    return mod


LANG = param("lang", "C")
WHICH = param("which", "isolation")
FIX_N = param("fix_n", None)
FIX_E1 = param("fix_e1", None)
if WHICH == "isolation":
    soup = _load("soup.py", "vh_soup_for_c06")
    LANGUAGE = capture.language(LANG)
    B = skel.Skeleton(LANG, dict(skel.programs(LANG, "quick"))["stmt-mix"], "stmt-mix")
    B2 = skel.Skeleton(LANG, dict(skel.programs(LANG, "quick"))["two"], "two")


def _sig(ms):
    return [(m.unit_name, m.start.line, m.start.column, m.end.line, m.end.column, m.value) for m in ms]


@untraced
def _scan_b(bump):
    if bump:
        State._id += 1000003          # the global state counter is somewhere else when the file is analysed again
    return _sig(scan_file(list(B.all_tokens), LANGUAGE)), _sig(scan_file(list(B2.all_tokens), LANGUAGE))


@untraced
def _isolation(ks, ds, cs, bump):
    r1 = _scan_b.__wrapped__(False)
    toks = soup.build(ks, ds, cs, [0, 0, 0, 0, 0])
    try:
        scan_file(toks, LANGUAGE)             # any file analysed in between, including ones that abort matching midway
    except Exception:
        pass
    r2 = _scan_b.__wrapped__(bump)
    return r1 == r2


def h_isolation(k0: int, k1: int, k2: int, k3: int, k4: int, d0: int, d1: int, d2: int, d3: int, d4: int, c0: int, c1: int, c2: int, c3: int, c4: int, s0: int, s1: int, s2: int, s3: int, s4: int, bump: bool) -> bool:
    """
    pre: soup._pre([k0, k1, k2, k3, k4], [d0, d1, d2, d3, d4], [c0, c1, c2, c3, c4], [s0, s1, s2, s3, s4]) and all(d <= 1 for d in [d0, d1, d2, d3, d4]) and all(c in (1, 5) for c in [c0, c1, c2, c3, c4]) and s0 + s1 + s2 + s3 + s4 == 0
    post: _
    """
    ks = [_real(k, len(soup.ALPHA)) for k in [k0, k1, k2, k3, k4]]
    ds = [_small(d, (0, 1)) for d in [d0, d1, d2, d3, d4]]
    cs = [_small(c, (1, 5)) for c in [c0, c1, c2, c3, c4]]
    return fin(_isolation(ks, ds, cs, True if bump else False), True)


def _expected_b(sk):
    out = []
    for i in sk.reportable():
        t = sk.truth[i]
        hs, be = sk.code[t["hs"]], sk.code[t["be"]]
        out.append((t["name"], hs.location.line, hs.location.column, be.location.line, be.location.column + len(be.value), t["length"]))
    return out


@untraced
def _scan_b_fresh():
    return _sig(scan_file(list(B.all_tokens), LANGUAGE)), _sig(scan_file(list(B2.all_tokens), LANGUAGE))


_SNAP_ISO = None


def _small(x, pool):
    for v in pool:
        if x == v:
            return v
    return pool[0]


@untraced
def _first_file(ks, ds, cs, ss):
    """Concrete here. The soup is the FIRST file the process ever analyses (process state reset to 'just imported'), then two canonical programs."""
    from vlib.hx import StateSnapshot
    global _SNAP_ISO
    if _SNAP_ISO is None:
        _SNAP_ISO = StateSnapshot()
    _SNAP_ISO.restore()
    toks = soup.build(ks, ds, cs, ss)
    try:
        scan_file(toks, LANGUAGE)             # may abort midway (ambiguity, ...): that is part of the scenario
    except Exception:
        pass
    return _scan_b_fresh.__wrapped__() == (_expected_b(B), _expected_b(B2))


def h_first_file(k0: int, k1: int, k2: int, k3: int, k4: int, d0: int, d1: int, d2: int, d3: int, d4: int, c0: int, c1: int, c2: int, c3: int, c4: int, s0: int, s1: int, s2: int, s3: int, s4: int) -> bool:
    """
    pre: soup._pre([k0, k1, k2, k3, k4], [d0, d1, d2, d3, d4], [c0, c1, c2, c3, c4], [s0, s1, s2, s3, s4]) and all(d <= 1 for d in [d0, d1, d2, d3, d4]) and all(c in (1, 5) for c in [c0, c1, c2, c3, c4]) and s0 + s1 + s2 + s3 + s4 == 0
    post: _
    """
    # everything is realised by explicit branching and the scenario runs untraced: under tracing CrossHair makes the predicates' custom __hash__
    # unusable as dict keys, which silently aborted the soup scan and hid a seeded shared-prototype defect
    ks = [_real(k, len(soup.ALPHA)) for k in [k0, k1, k2, k3, k4]]
    ds = [_small(d, (0, 1)) for d in [d0, d1, d2, d3, d4]]
    cs = [_small(c, (1, 5)) for c in [c0, c1, c2, c3, c4]]
    return fin(_first_file(ks, ds, cs, [0, 0, 0, 0, 0]), True)


# ----------------------------------------------------------------------------------------------- transition-order independence
if WHICH == "consume":
    c15 = _load("c15.py", "vh_c15_for_c06")


def _outcome(ci, d0, d1, k, v, perm):
    p, bals = c15._setup(ci, [d0, d1][:c15.NBAL])
    st = p.state
    orig = list(st.transition)
    st_copy = State()
    st_copy.transition = [orig[i] for i in perm]
    st_copy.epsilon_transitions = st.epsilon_transitions
    p.state = st_copy
    tok = Token(Location(1, 1), c15.TYPES[k], v)
    try:
        nxt = p.consume(tok)
    except ValueError:
        return "ambiguous"
    return None if nxt is None else c15.A["index"][id(nxt)]


def _perm_of(n, code):
    """the code-th permutation of range(n) in lexicographic order (n <= 4); realised by explicit branching"""
    import itertools
    perms = list(itertools.permutations(range(n)))
    for i in range(len(perms)):
        if code == i:
            return list(perms[i])
    return list(perms[0])


def h_consume_order(si: int, d0: int, d1: int, k: int, v: str, code: int) -> bool:
    """
    pre: 0 <= si < len(c15.A["states"]) and 0 <= k < len(c15.TYPES) and 0 <= code < 24 and (c15.NBAL >= 1 or d0 == 0) and (c15.NBAL >= 2 or d1 == 0)
    post: _
    """
    # every state x every depth (unbounded, unconstrained by reachability: order independence must hold everywhere) x every token
    c15.KNOWN[:] = [(s, tuple("0" for _ in range(c15.NBAL))) for s in range(len(c15.A["states"]))]
    n = len(c15.A["states"][_real(si, len(c15.A["states"]))].transition)
    if n > 4:
        return fin(True, False)
    import math
    if code >= math.factorial(n):
        return fin(True, False)
    ident = list(range(n))
    a = _outcome(_real(si, len(c15.A["states"])), d0, d1, k, v, ident)
    b = _outcome(_real(si, len(c15.A["states"])), d0, d1, k, v, _perm_of(n, code))
    return fin(a == b, n >= 2 and code >= 1)


def _real(x, n):
    for i in range(n):
        if x == i:
            return i
    return 0


# ----------------------------------------------------------------------------------------------- insertion / traversal order
PATHS3 = ["a.py", "d/b.py", "d/e/c.js"]
LANGS3 = ["Python", "Python", "JavaScript"]


def _cb(order, vals):
    cb = Codebase("/r")
    for i in order:
        ms = [Measurement(f"f{i}", Location(1, 1), Location(9, 2), vals[i]), Measurement(f"g{i}", Location(11, 1), Location(19, 2), 33 + i)]
        cb.add_file(SourceFileEntry(PATHS3[i], f"k{i}", LANGS3[i], vals[i] + 33 + i, ms))
    cb.aggregate()
    return cb


def _cb_sig(cb):
    tot = {k: (t.files, t.loc, t.functions, t.hard_to_maintain, t.unmaintainable) for k, t in cb.totals.items()}
    tree = {k: (sorted(e.name for e in f.entries), f.profile) for k, f in cb.tree.items()}
    files = {k: (e.checksum(), e.language, e.loc, e.profile()) for k, e in cb.files.items()}
    return tot, tree, files


def h_add_order(code: int, v0: int, v1: int, v2: int) -> bool:
    """
    pre: 0 <= code < 6 and v0 >= 1 and v1 >= 1 and v2 >= 1
    post: _
    """
    vals = [v0, v1, v2]
    a = _cb_sig(_cb([0, 1, 2], vals))
    b = _cb_sig(_cb(_perm_of(3, code), vals))
    return fin(a == b, code >= 1)


# ----------------------------------------------------------------------------------------------- isolation at file level (Scanner._analyze_file after any history)
EXTS = ["py", "js", "ts", "java", "c", "cpp", "cs"]
TEXTS = [
    "int outer(int a) {\n  int inner(int b) {\n    return b;\n  }\n  return inner(a);\n}\n",
    "function area(w: number, h: number): number {\n  return w * h;\n}\n",
    "def f(a):\n  return a\n\nx = 1\n",
    "void g() {\n  x = 1;\n}\nclass A {\n  int m() {\n    return 1;\n  }\n}\n",
    "\n\n\nint lead(int a) {\n  return a;\n}\n\n\n",                                    # leading and trailing blank lines
    "\n  \ndef lead(a):\n    b = a\n    return b\n",                                          # leading blank / whitespace-only lines
    "function crlf(a) {\r\n  return a;\r\n}\r\n",                                          # CRLF line ends
    b"def caf\xe9(a):\n  b = a\n  return b\n",                                           # bytes that are not UTF-8 (read through the Latin-1 fallback)
    "def voil\u00e0(a):\n  b = '\u00e9\u00e8'\n  return b\n".encode("utf-8"),                   # UTF-8 with non-ASCII identifiers (must not be affected by an earlier fallback)
]


def _bytes_of(t):
    return t if isinstance(t, bytes) else t.encode("utf-8")


def _text_of(t):
    """what reading the file in text mode yields: UTF-8, else Latin-1; universal newlines"""
    if isinstance(t, bytes):
        try:
            t = t.decode("utf-8")
        except UnicodeDecodeError:
            t = t.decode("latin-1")
    return t.replace("\r\n", "\n").replace("\r", "\n")


_SNAP = None


@untraced
def _analyze_history(hist):
    """hist: list of (ext index, text index); the last element is the file under observation. Returns (result after the history, stand-alone analysis of the same file)."""
    import hashlib
    import codelimit.common.Scanner as scn
    from pygments.lexers import get_lexer_for_filename
    from codelimit.common.lexer_utils import lex
    from codelimit.languages import Languages
    from vlib import fsstub
    from vlib.hx import StateSnapshot
    global _SNAP
    if _SNAP is None:
        _SNAP = StateSnapshot()
    _SNAP.restore()          # every path starts from the state of a fresh process
    files = {}
    for i, (e, t) in enumerate(hist):
        files[f"/w/d{i}/file{i}.{EXTS[e]}"] = TEXTS[t]
    fs = fsstub.FakeFS(files, cwd="/w")
    saved = scn.__dict__.get("open")
    scn.open = fs.open
    try:
        res = None
        for i, (e, t) in enumerate(hist):
            path = f"/w/d{i}/file{i}.{EXTS[e]}"
            lexer = get_lexer_for_filename(path)
            entry = scn._analyze_file(path, f"d{i}/file{i}.{EXTS[e]}", hashlib.md5(_bytes_of(TEXTS[t])).hexdigest(), lexer)
            res = (entry.language, entry.loc, _sig(entry.measurements()))
    finally:
        if saved is None:
            del scn.open
        else:
            scn.open = saved
    e, t = hist[-1]
    lexer = get_lexer_for_filename("x." + EXTS[e])
    text = _text_of(TEXTS[t])
    ms = scan_file(lex(lexer, text, False), Languages.by_name[lexer.__class__.name])
    alone = (lexer.__class__.name, sum(m.value for m in ms), _sig(ms))
    # positions are those of the FILE's text (leading blank lines, CRLF, non-ASCII included): the real lex() must place every token where the text has it
    from vlib import skel
    sk = skel.Skeleton(["Python", "JavaScript", "TypeScript", "Java", "C", "Cpp", "CSharp"][e], None, "file", text=text)
    if sk.lex_mismatch:
        alone = ("lex() places a token elsewhere than the text does", sk.lex_mismatch)
    return res, alone


def h_analyze_history(n: int, e1: int, t1: int, e2: int, t2: int, e3: int, t3: int) -> bool:
    """
    pre: 1 <= n <= 3 and (FIX_N is None or n == FIX_N) and (FIX_E1 is None or e1 == FIX_E1) and (n == 3 or (e3 == 0 and t3 == 0)) and (n >= 2 or (e2 == 0 and t2 == 0)) and all(0 <= e < len(EXTS) for e in [e1, e2, e3]) and all(0 <= t < len(TEXTS) for t in [t1, t2, t3])
    post: _
    """
    hist = [(_real(e, len(EXTS)), _real(t, len(TEXTS))) for e, t in [(e1, t1), (e2, t2), (e3, t3)]][:_real(n - 1, 3) + 1]
    res, alone = _analyze_history(hist)
    return fin(res == alone, n >= 2 or FIX_N == 1)


def real_h_analyze_history(n, e1, t1, e2, t2, e3, t3):
    hist = [(e1, t1), (e2, t2), (e3, t3)][:n]
    f = _analyze_history.__wrapped__ if hasattr(_analyze_history, "__wrapped__") else _analyze_history
    res, alone = f(hist)
    return {"reproduced": res != alone, "sig": "file-isolation:result-depends-on-history", "detail": f"history {[(EXTS[e], t) for e, t in hist]}: after history {res}, alone {alone}"}
