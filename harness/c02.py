"""C02 — thresholds and the refactoring alarm. Real code: utils.make_profile/make_count_profile/get_style_for_measurement/
get_emoji_for_measurement/format_unit/format_measurement, LanguageTotals.add, CheckResult.add/report, Report.all_report_units_sorted_by_length_asc,
format_text.print_findings, format_markdown.print_findings, commands.check.check_command/check_file."""
from pathlib import Path

import typer

import codelimit.commands.check as chk
import codelimit.common.CheckResult as crmod
from codelimit.common.CheckResult import CheckResult
from codelimit.common.Codebase import Codebase
from codelimit.common.GithubRepository import GithubRepository
from codelimit.common.LanguageTotals import LanguageTotals
from codelimit.common.Location import Location
from codelimit.common.Measurement import Measurement
from codelimit.common.SourceFileEntry import SourceFileEntry
from codelimit.common.report import format_markdown, format_text
from codelimit.common.report.Report import Report
from codelimit.common.utils import (
    format_measurement, format_unit, get_emoji_for_measurement, get_style_for_measurement, make_count_profile, make_profile,
)
from vlib.hx import Fig, RecConsole, fig_markers, fin, param, untraced

COLORS = ["green", "yellow", "dark_orange", "red"]


def cat(L):
    """The statement's category function."""
    if L <= 15:
        return 0
    if L <= 30:
        return 1
    if L <= 60:
        return 2
    return 3


def M(name, v, line=1):
    return Measurement(name, Location(line, 1), Location(line + 1, 2), v)


def _report(files):
    cb = Codebase("/r")
    for path, ms in files:
        cb.add_file(SourceFileEntry(path, "k", "Python", sum(Fig.val(m.value) for m in ms), ms))
    r = Report.__new__(Report)  # S-time/uuid: skip uuid4()/datetime.now()
    r.version, r.uuid, r.timestamp, r.repository, r.codebase = "v", "u", "t", None, cb
    return r


def h_views(L: int) -> bool:
    """
    pre: L >= 1
    post: _
    """
    c = cat(L)
    m = M("f", L)
    exp = [0, 0, 0, 0]
    exp[c] = L
    ok = make_profile([m]) == exp
    expc = [0, 0, 0, 0]
    expc[c] = 1
    ok = ok and make_count_profile([m]) == expc
    lt = LanguageTotals("Python")
    lt.add(SourceFileEntry("a.py", "k", "Python", L, [m]))
    ok = ok and lt.hard_to_maintain == (1 if c == 2 else 0) and lt.unmaintainable == (1 if c == 3 else 0)
    ok = ok and lt.files == 1 and lt.functions == 1 and lt.loc == L
    cr = CheckResult()
    cr.add(Path("a.py"), [m])
    ok = ok and cr.hard_to_maintain == (1 if c == 2 else 0) and cr.unmaintainable == (1 if c == 3 else 0)
    ok = ok and get_style_for_measurement(L).color.name == COLORS[c]
    ok = ok and get_emoji_for_measurement(L) == ["✓", "✓", "⚠", "✖"][c]
    units = _report([("a.py", [m])]).all_report_units_sorted_by_length_asc(30)
    ok = ok and (len(units) == 1) == (L > 30)
    return fin(ok, c == 2)


def _style_color_of_marker(text, idx):
    """Colour of the span that renders marker idx in a rich Text."""
    plain = text.plain
    mk = f"\x01{idx}:"
    pos = plain.find(mk)
    for sp in text.spans:
        if sp.start <= pos < sp.end and getattr(sp.style, "color", None) is not None:
            return sp.style.color.name
    return None


def h_format(L: int) -> bool:
    """
    pre: L >= 1
    post: _
    """
    c = cat(L)
    f = Fig(L)
    t = format_unit("fn", f, "a.py")
    # the separator " | " carries the colour
    sepcol = None
    for sp in t.spans:
        if t.plain[sp.start:sp.end] == " | ":
            sepcol = sp.style.color.name
    ok = sepcol == COLORS[c]
    ok = ok and [i for i, _ in fig_markers(t.plain)] == [f.i]
    tm = format_measurement("a.py", M("fn", f))
    ok = ok and _style_color_of_marker(tm, f.i) == COLORS[c]
    sym = ["✓", "✓", "⚠", "✖"][c]
    ok = ok and (" " + sym + " fn") in tm.plain
    # findings: text and markdown
    rep = _report([("a.py", [M("fn", f)])])
    con = RecConsole()
    format_text.print_findings(con, rep, False)
    listed = [x for x in con.texts() if "fn" in x]
    ok = ok and (len(listed) == 1) == (L > 30)
    con2 = RecConsole()
    format_markdown.print_findings(rep, con2, False)
    rows = [x for x in con2.texts() if "fn" in x]
    ok = ok and (len(rows) == 1) == (L > 30)
    if rows:
        ok = ok and (("❌" in rows[0]) == (L > 60)) and (("⚠" in rows[0]) == (L <= 60))
    rep.repository = GithubRepository("o", "n", "b")
    con3 = RecConsole()
    format_markdown.print_findings(rep, con3, False)
    rows = [x for x in con3.texts() if "fn" in x]
    ok = ok and (len(rows) == 1) == (L > 30)
    if rows:
        ok = ok and (("❌" in rows[0]) == (L > 60)) and (("⚠" in rows[0]) == (L <= 60))
    return fin(ok, c == 3)


def h_rescan(a: int, b: int) -> bool:
    """
    pre: a >= 1 and b >= 1
    post: _
    """
    # the same file (same relative path) analysed twice in one process with different lengths - what `scan` does when a cached file has changed
    from vlib.hx import StateSnapshot
    global _SNAP
    if _SNAP is None:
        _SNAP = StateSnapshot()
    _SNAP.restore()
    ok = True
    for L in (a, b):
        lt = LanguageTotals("Python")
        m = M("f", L)
        lt.add(SourceFileEntry("pkg/a.py", "k", "Python", L, [m]))
        ok = ok and lt.hard_to_maintain == (1 if cat(L) == 2 else 0) and lt.unmaintainable == (1 if cat(L) == 3 else 0) and lt.loc == L
        ok = ok and SourceFileEntry("pkg/a.py", "k", "Python", L, [m]).profile() == [L if cat(L) == k else 0 for k in range(4)]
        cr = CheckResult()
        cr.add(Path("pkg/a.py"), [m])
        ok = ok and cr.unmaintainable == (1 if cat(L) == 3 else 0) and cr.hard_to_maintain == (1 if cat(L) == 2 else 0)
    return fin(ok, cat(a) == 2 and cat(b) == 3)


_SNAP = None


def h_multi(a: int, b: int, c: int) -> bool:
    """
    pre: a >= 1 and b >= 1 and c >= 1
    post: _
    """
    vals = [a, b, c]
    ms = [M("f0", a), M("f1", b), M("f2", c)]
    exp = [0, 0, 0, 0]
    expc = [0, 0, 0, 0]
    for v in vals:
        exp[cat(v)] += v
        expc[cat(v)] += 1
    ok = make_profile(ms) == exp and make_count_profile(ms) == expc
    lt = LanguageTotals("Python")
    lt.add(SourceFileEntry("a.py", "k", "Python", a + b, ms[:2]))
    lt.add(SourceFileEntry("b.py", "k", "Python", c, ms[2:]))
    ok = ok and lt.hard_to_maintain == expc[2] and lt.unmaintainable == expc[3] and lt.functions == 3 and lt.files == 2 and lt.loc == a + b + c
    rep = _report([("a.py", ms[:2]), ("b.py", ms[2:])])
    units = rep.all_report_units_sorted_by_length_asc(30)
    names = sorted(u.measurement.unit_name for u in units)
    ok = ok and names == sorted(n for n, v in zip(["f0", "f1", "f2"], vals) if v > 30)
    for i in range(len(units) - 1):
        ok = ok and units[i].measurement.value >= units[i + 1].measurement.value
    ok = ok and rep.quality_profile() == exp
    return fin(ok, expc[2] >= 1 and expc[3] >= 1)


# ----------------------------------------------------------------------------- check_command
class FPath(type(Path())):
    """A path that claims to be an existing regular file (S-fs); nothing is opened (open is stubbed)."""
    def is_file(self):
        return True

    def is_dir(self):
        return False


class _FakeFile:
    def __init__(self, path):
        self.path = path

    def __enter__(self):
        return self

    def __exit__(self, *a):
        return False

    def read(self):
        return "<" + str(self.path) + ">"


class _FakeRich:
    def __init__(self, con):
        self.con = con

    def print(self, *a, **k):
        self.con.print(*a, **k)


_spec = untraced(chk.generate_exclude_spec)
_glff = untraced(chk.get_lexer_for_filename)


def _run_check(files, quiet):
    """files: list of (name, [Measurement]) -> (exit_code, recorded lines)."""
    table = {name: ms for name, ms in files}
    con = RecConsole()
    saved = (chk.scan_file, chk.lex, chk.__dict__.get("open"), chk.generate_exclude_spec, chk.get_lexer_for_filename, crmod.Console, crmod.rich)
    saved_rf = chk.__dict__.get("_read_file")
    if saved_rf is not None:     # check_file reads through the scanner's _read_file
        chk._read_file = lambda p: "<" + Path(p).name + ">"
    chk.lex = lambda lexer, code, fc=True: code            # the "tokens" are just the file's identity
    chk.scan_file = lambda tokens, language: list(table[tokens[1:-1]])
    chk.open = lambda p, *a, **k: _FakeFile(Path(p).name)
    chk.generate_exclude_spec = _spec
    chk.get_lexer_for_filename = _glff
    crmod.Console = lambda *a, **k: con
    crmod.rich = _FakeRich(con)
    try:
        code = None
        try:
            chk.check_command([FPath(name) for name, _ in files], quiet)
        except typer.Exit as e:
            code = e.exit_code
        return code, con.texts()
    finally:
        chk.scan_file, chk.lex, _o, chk.generate_exclude_spec, chk.get_lexer_for_filename, crmod.Console, crmod.rich = saved
        if saved_rf is not None:
            chk._read_file = saved_rf
        if _o is None:
            del chk.open
        else:
            chk.open = _o


def _check_oracle(files, vals, quiet, code, lines):
    """vals: {unit name: plain value}. files: list of (name, [Measurement with Fig values])."""
    ok = code == (1 if any(v > 60 for v in vals.values()) else 0)
    n_over = sum(1 for v in vals.values() if v > 30)
    listing = [x for x in lines if "files checked" not in x]
    summary = [x for x in lines if "files checked" in x]
    if quiet and n_over == 0:
        return ok and lines == []
    ok = ok and len(summary) == 1 and len(listing) == n_over
    if n_over:
        ok = ok and summary[0] == f"{len(files)} files checked, {n_over} functions need refactoring."
    else:
        ok = ok and "Refactoring not necessary" in summary[0]
    # listing: per file in argument order, exactly the >30 units, longest first
    k = 0
    for name, ms in files:
        exp = [m for m in ms if vals[m.unit_name] > 30]
        got = listing[k:k + len(exp)]
        k += len(exp)
        if len(got) != len(exp):
            return False
        prev = None
        seen = []
        for row in got:
            ok = ok and row.startswith(name + ":")
            mk = fig_markers(row)
            ok = ok and len(mk) == 1
            m = [m for m in ms if m.value.i == mk[0][0]]
            ok = ok and len(m) == 1
            if not ok:
                return False
            m = m[0]
            v = vals[m.unit_name]
            seen.append(m.unit_name)
            ok = ok and row == f"{name}:{m.start.line}:{m.start.column}: {m.value} {'✖' if v > 60 else '⚠'} {m.unit_name}"
            if prev is not None:
                ok = ok and prev >= v
            prev = v
        ok = ok and sorted(seen) == sorted(m.unit_name for m in exp)
    return ok


def h_check(a: int, b: int, c: int, quiet: bool) -> bool:
    """
    pre: a >= 1 and b >= 1 and c >= 1
    post: _
    """
    vals = {"f0": a, "f1": b, "f2": c}
    files = [("a.py", [M("f0", Fig(a), 3), M("f1", Fig(b), 50)]), ("b.py", [M("f2", Fig(c), 7)])]
    code, lines = _run_check(files, quiet)
    ok = _check_oracle(files, vals, quiet, code, lines)
    return fin(ok, a > 60 and 30 < b <= 60 and c <= 30)


def h_check1(a: int, quiet: bool) -> bool:
    """
    pre: a >= 1
    post: _
    """
    vals = {"f0": a}
    files = [("a.py", [M("f0", Fig(a), 3)])]
    code, lines = _run_check(files, quiet)
    return fin(_check_oracle(files, vals, quiet, code, lines), a > 60)


# ----------------------------------------------------------------------------- replays through the public entry points on real files (no stubs)
def _real_run(lengths_by_file, quiet):
    """Write real Python files whose functions have the given lengths, run the real check_command and scan_path on them; returns (exit, lines, scan totals)."""
    import contextlib
    import io
    import os
    import shutil
    import tempfile
    from codelimit.common.Scanner import scan_path
    d = tempfile.mkdtemp(prefix="verif-c02-")
    old = os.getcwd()
    try:
        names = []
        for fname, lens in lengths_by_file:
            src = ""
            for i, L in enumerate(lens):
                src += f"def {fname[0]}{i}(a):\n" + "".join(f"    v{j} = {j}\n" for j in range(max(L - 1, 1))) + "\n\n"
                names.append((fname, f"{fname[0]}{i}", max(L, 2)))
            with open(os.path.join(d, fname), "w") as f:
                f.write(src)
        os.chdir(d)
        buf = io.StringIO()
        code = None
        with contextlib.redirect_stdout(buf):
            try:
                chk.check_command([Path(f) for f, _ in lengths_by_file], quiet)
            except typer.Exit as e:
                code = e.exit_code
        cb = scan_path(Path(d))
        return code, [ln for ln in buf.getvalue().splitlines() if ln.strip()], cb, names
    finally:
        os.chdir(old)
        shutil.rmtree(d, ignore_errors=True)


def _real_verdict(lengths_by_file, quiet):
    code, lines, cb, names = _real_run(lengths_by_file, quiet)
    vals = [L for _f, _n, L in names]
    problems = []
    if code != (1 if any(v > 60 for v in vals) else 0):
        problems.append(f"exit status {code} for lengths {vals}")
    n_over = sum(1 for v in vals if v > 30)
    listing = [ln for ln in lines if "files checked" not in ln]
    if quiet and n_over == 0:
        if lines:
            problems.append("--quiet printed although nothing is over 30")
    else:
        if len(listing) != n_over:
            problems.append(f"{len(listing)} functions listed, {n_over} are longer than 30: {listing}")
        summ = [ln for ln in lines if "files checked" in ln]
        if n_over and not any(f"{n_over} functions need" in ln for ln in summ):
            problems.append(f"summary does not say {n_over}: {summ}")
        for (fname, name, L) in names:
            if L > 30 and not any(ln.startswith(fname + ":") and ln.rstrip().endswith(name) and f" {L} " in ln and (("✖" in ln) == (L > 60)) for ln in listing):
                problems.append(f"{fname}:{name} (length {L}) not listed correctly")
    tot = cb.totals.get("Python")
    if tot is not None:
        exp_h = sum(1 for v in vals if 30 < v <= 60)
        exp_u = sum(1 for v in vals if v > 60)
        if (tot.hard_to_maintain, tot.unmaintainable, tot.functions) != (exp_h, exp_u, len(vals)):
            problems.append(f"scan totals hard/unmaintainable/functions = {(tot.hard_to_maintain, tot.unmaintainable, tot.functions)}, expected {(exp_h, exp_u, len(vals))}")
        prof = [0, 0, 0, 0]
        for v in vals:
            prof[cat(v)] += v
        if cb.tree["./"].profile == [0, 0, 0, 0]:
            cb.aggregate()
        if cb.tree["./"].profile != prof:
            problems.append(f"root profile {cb.tree['./'].profile}, expected {prof}")
    return problems


def real_h_check(a, b, c, quiet):
    if min(a, b, c) < 2:
        return None
    p = _real_verdict([("a.py", [a, b]), ("b.py", [c])], quiet)
    return {"reproduced": True, "sig": "thresholds:check-or-scan-disagrees-with-the-statement", "detail": "; ".join(p)[:500]} if p else None


def real_h_check1(a, quiet):
    if a < 2:
        return None
    p = _real_verdict([("a.py", [a])], quiet)
    return {"reproduced": True, "sig": "thresholds:check-or-scan-disagrees-with-the-statement", "detail": "; ".join(p)[:500]} if p else None


def real_h_views(L):
    if L < 2:
        return None
    p = _real_verdict([("a.py", [L])], False)
    return {"reproduced": bool(p), "sig": "thresholds:check-or-scan-disagrees-with-the-statement", "detail": "; ".join(p)[:500]} if p else None


def real_h_multi(a, b, c):
    if min(a, b, c) < 2:
        return None
    p = _real_verdict([("a.py", [a, b]), ("b.py", [c])], False)
    return {"reproduced": bool(p), "sig": "thresholds:check-or-scan-disagrees-with-the-statement", "detail": "; ".join(p)[:500]} if p else None
