"""C19 (verdict part) — the summary verdict follows from the shown percentages, identically in text and Markdown.
Real code: format_text.print_summary, SummaryTable, format_markdown.print_summary. The percentages are solver variables (S-fmt figures)."""
import codelimit.common.report.format_text as ft
import codelimit.common.report.format_markdown as fm
from codelimit.common.report.Report import Report
from vlib.hx import Fig, RecConsole, fig_markers, fin


class _Rep:
    def __init__(self, tup):
        self.tup = tup

    def quality_profile_percentage(self):
        return self.tup


def _verdict(texts):
    out = []
    for t in texts:
        if ":stop_sign:" in t:
            out.append("stop")
        elif ":warning:" in t:
            out.append("warn")
        elif ":white_check_mark:" in t:
            out.append("ok")
    return out


def h_verdict(e: int, v: int, h: int, u: int) -> bool:
    """
    pre: True
    post: _
    """
    exp = "stop" if u > 0 else ("warn" if h > 20 else "ok")
    necessary = (u > 0) or (h > 20)
    rep = _Rep((Fig(e), Fig(v), Fig(h), Fig(u)))
    c1 = RecConsole()
    ft.print_summary(c1, rep)
    t1 = c1.texts()
    c2 = RecConsole()
    fm.print_summary(c2, rep)
    t2 = c2.texts()
    ok = _verdict(t1) == [exp] and _verdict(t2) == [exp]
    for t in t1 + t2:
        if "refactoring" in t:
            ok = ok and (("no refactoring necessary" in t) == (not necessary)) and ((", refactoring necessary" in t) == necessary)
    # the number inside the verdict sentence is the category it talks about
    for ts in (t1, t2):
        line = [t for t in ts if "refactoring" in t]
        ok = ok and len(line) == 1
        if line:
            mk = fig_markers(line[0])
            ok = ok and len(mk) == 1
            if mk:
                val = Fig.table[mk[0][0]]
                ok = ok and val == (u if exp == "stop" else h if exp == "warn" else e + v)
    # the table cells: easy+verbose, hard, unmaintainable in this order (text: SummaryTable, markdown: third printed line)
    tbl = [x for objs, _ in c1.items for x in objs if hasattr(x, "columns")]
    ok = ok and len(tbl) == 1
    if tbl:
        cells = [col._cells[0] for col in tbl[0].columns]
        vals = [Fig.table[fig_markers(c.plain)[0][0]] for c in cells]
        ok = ok and vals == [e + v, h, u]
        ok = ok and ((cells[2].style == "red") == (u > 0)) and ((cells[1].style == "dark_orange") == (h > 20))
        ok = ok and (not (cells[0].style == "green") or not necessary)
    row = [t for t in t2 if t.startswith("| \x01")]
    ok = ok and len(row) == 1
    if row:
        ok = ok and [Fig.table[i] for i, _ in fig_markers(row[0])] == [e + v, h, u]
    return fin(ok, exp == "warn")
