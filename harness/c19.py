"""C19 (verdict part) — the summary verdict follows from the shown percentages, identically in text and Markdown.
Real code: format_text.print_summary, SummaryTable, format_markdown.print_summary. The percentages are solver variables (S-fmt figures)."""
import codelimit.common.report.format_text as ft
import codelimit.common.report.format_markdown as fm
from codelimit.common.report.Report import Report
from vlib.hx import Fig, RecConsole, fig_markers, fin


class _Rep:
    def __init__(self, tup):
        self.tup = tup

    def quality_profile_percentage(self):
        return self.tup


def _verdict(texts):
    out = []
    for t in texts:
        if ":stop_sign:" in t:
            out.append("stop")
        elif ":warning:" in t:
            out.append("warn")
        elif ":white_check_mark:" in t:
            out.append("ok")
    return out


def h_verdict(e: int, v: int, h: int, u: int) -> bool:
    """
    pre: True
    post: _
    """
    exp = "stop" if u > 0 else ("warn" if h > 20 else "ok")
    necessary = (u > 0) or (h > 20)
    rep = _Rep((Fig(e), Fig(v), Fig(h), Fig(u)))
    c1 = RecConsole()
    ft.print_summary(c1, rep)
    t1 = c1.texts()
    c2 = RecConsole()
    fm.print_summary(c2, rep)
    t2 = c2.texts()
    ok = _verdict(t1) == [exp] and _verdict(t2) == [exp]
    for t in t1 + t2:
        if "refactoring" in t:
            ok = ok and (("no refactoring necessary" in t) == (not necessary)) and ((", refactoring necessary" in t) == necessary)
    # the number inside the verdict sentence is the category it talks about
    for ts in (t1, t2):
        line = [t for t in ts if "refactoring" in t]
        ok = ok and len(line) == 1
        if line:
            mk = fig_markers(line[0])
            ok = ok and len(mk) == 1
            if mk:
                val = Fig.table[mk[0][0]]
                ok = ok and val == (u if exp == "stop" else h if exp == "warn" else e + v)
    # the table cells: easy+verbose, hard, unmaintainable in this order (text: SummaryTable, markdown: third printed line)
    tbl = [x for objs, _ in c1.items for x in objs if hasattr(x, "columns")]
    ok = ok and len(tbl) == 1
    if tbl:
        cells = [col._cells[0] for col in tbl[0].columns]
        vals = [Fig.table[fig_markers(c.plain)[0][0]] for c in cells]
        ok = ok and vals == [e + v, h, u]
        ok = ok and ((cells[2].style == "red") == (u > 0)) and ((cells[1].style == "dark_orange") == (h > 20))
        ok = ok and (not (cells[0].style == "green") or not necessary)
    row = [t for t in t2 if t.startswith("| \x01")]
    ok = ok and len(row) == 1
    if row:
        ok = ok and [Fig.table[i] for i, _ in fig_markers(row[0])] == [e + v, h, u]
    return fin(ok, exp == "warn")


# ----------------------------------------------------------------------------------------------- the summary of a REAL report (with / without a comparison report), both formats
# The percentages shown in the table and the verdict sentence must both be those of the CURRENT report, however often they were asked for before and
# whatever report it is compared with. Codebases are chosen by the solver from a pool and everything then runs concretely (untraced): the formatting code
# renders integers into text, which CrossHair can only do on concrete values.
from vlib.hx import untraced  # noqa: E402

BASES = [
    {"app.py": [12] * 14, "pkg/legacy.py": [40]},                       # first file dominates; hard share just under 20 %
    {"a.py": [10, 12], "b.py": [15]},                                   # all easy
    {"a.py": [70, 10], "d/b.py": [20, 20, 35]},                         # unmaintainable present
    {"a.py": [40, 35], "b.py": [10]},                                   # hard-to-maintain > 20 %
    {"big.py": [25] * 20, "x/y.py": [31], "z.py": [16, 16]},            # verbose-heavy, hard share tiny
]


def _mk_report(bi):
    from codelimit.common.Codebase import Codebase
    from codelimit.common.Location import Location
    from codelimit.common.Measurement import Measurement
    from codelimit.common.SourceFileEntry import SourceFileEntry
    cb = Codebase("/r")
    for p, vals in BASES[bi].items():
        ms = [Measurement(f"f{j}", Location(1 + 100 * j, 1), Location(1 + 100 * j + v, 2), v) for j, v in enumerate(vals)]
        cb.add_file(SourceFileEntry(p, "k-" + p, "Python", sum(vals), ms))
    cb.aggregate()
    return Report(cb)


def _own_percentages(bi):
    """expected figures: the repository's percentage function on a FRESH report object of the same codebase, first call (the function itself is the subject of the SMT part)"""
    return tuple(_mk_report(bi).quality_profile_percentage())


@untraced
def _summary_real(ci, pi, fmt, warm):
    import re
    exp = _own_percentages(ci)
    e, v, h, u = exp
    rep = _mk_report(ci)
    prev = _mk_report(pi) if pi >= 0 else None
    for _ in range(warm):                      # figures were already asked for (e.g. by an earlier command in the same process)
        rep.quality_profile_percentage()
    con = RecConsole()
    if fmt == 0:
        ft.print_report(con, rep, prev)
    else:
        fm.print_report(con, rep, prev)
    texts = con.texts()
    bad = []
    kind = "stop" if u > 0 else ("warn" if h > 20 else "ok")
    if _verdict(texts) != [kind]:
        bad.append("verdict-kind")
    line = [t for t in texts if "refactoring" in t]
    want = u if kind == "stop" else h if kind == "warn" else e + v
    if len(line) != 1 or re.findall(r"(-?\d+)%", line[0]) != [str(want)]:
        bad.append("verdict-figure")
    if fmt == 0:
        tbl = [x for objs, _ in con.items for x in objs if hasattr(x, "columns") and type(x).__name__ == "SummaryTable"]
        cells = [col._cells[0].plain for col in tbl[0].columns] if len(tbl) == 1 else None
        if cells != [f"{e + v}%", f"{h}%", f"{u}%"]:
            bad.append("table-figures")
    else:
        rows = [t for t in texts if re.fullmatch(r"\| -?\d+% \| -?\d+% \| -?\d+% \|", t.strip())]
        if rows != [f"| {e + v}% | {h}% | {u}% |"]:
            bad.append("table-figures")
    if tuple(rep.quality_profile_percentage()) != exp:
        bad.append("figures-change-when-asked-again")
    return bad


def _sel(x, lo, hi):
    for k in range(lo, hi + 1):
        if x == k:
            return k
    return lo


def h_summary_real(ci: int, pi: int, fmt: int, warm: int) -> bool:
    """
    pre: 0 <= ci < len(BASES) and -1 <= pi < len(BASES) and 0 <= fmt <= 1 and 0 <= warm <= 2
    post: _
    """
    bad = _summary_real(_sel(ci, 0, len(BASES) - 1), _sel(pi, -1, len(BASES) - 1), _sel(fmt, 0, 1), _sel(warm, 0, 2))
    return fin(bad == [], pi >= 0 and warm == 1)


def real_h_summary_real(ci, pi, fmt, warm):
    bad = _summary_real.__wrapped__(ci, pi, fmt, warm)
    return {"reproduced": bool(bad), "sig": "summary-of-a-real-report:" + "+".join(bad), "detail": f"codebase {BASES[ci]} compared with {BASES[pi] if pi >= 0 else None}, format {'text' if fmt == 0 else 'markdown'}, percentages asked {warm} time(s) before: {bad}"}
