"""C18 — rendered report, diff and findings show exactly the stored numbers. Real code: LanguageTotalsDelta, ScanTotalsDelta, ScanTotals,
ScanResultTable (text), format_markdown._print_totals / print_totals, format_text.print_totals, print_findings (both formats).
S-fmt: figures are opaque Fig objects (value in the solver, rendering trusted); S-ui: recording console.
param: {"column": one of files/functions/loc/hard_to_maintain/unmaintainable, "scenario": same|added|removed|single}"""
from codelimit.common.Codebase import Codebase
from codelimit.common.GithubRepository import GithubRepository
from codelimit.common.LanguageTotals import LanguageTotals
from codelimit.common.Location import Location
from codelimit.common.Measurement import Measurement
from codelimit.common.ScanResultTable import ScanResultTable
from codelimit.common.ScanTotals import ScanTotals
from codelimit.common.SourceFileEntry import SourceFileEntry
from codelimit.common.report import format_markdown, format_text
from codelimit.common.report.Report import Report
from vlib.hx import Fig, RecConsole, fig_markers, fin, param

COLS = ["files", "functions", "loc", "hard_to_maintain", "unmaintainable"]
COLUMN = param("column", "files")
SCEN = param("scenario", "same")
BASE = {"files": 3, "functions": 9, "loc": 200, "hard_to_maintain": 2, "unmaintainable": 1}


def LT(lang, sym, delta_base=0):
    """LanguageTotals with every figure a Fig; the selected column carries the symbolic value."""
    t = LanguageTotals(lang)
    for c in COLS:
        setattr(t, c, Fig(sym if c == COLUMN else BASE[c] + delta_base))
    return t


def _report(totals):
    cb = Codebase("/r")
    cb.totals = totals
    r = Report.__new__(Report)
    r.version, r.uuid, r.timestamp, r.repository, r.codebase = "v", "u", "t", None, cb
    return r


def _cell_ok(cell, cur, prev, both):
    """cell text -> markers; shown value is the stored one; annotation exactly when cur != prev (for entries present in both)."""
    mk = fig_markers(cell)
    if len(mk) < 1 or mk[0][1] not in ("n", ""):
        return False
    if not (Fig.table[mk[0][0]] == Fig.val(cur)):
        return False
    if not both:
        return True
    differ = not (Fig.val(cur) == Fig.val(prev))
    if differ:
        return len(mk) == 2 and mk[1][1] == "+n" and Fig.table[mk[1][0]] == Fig.val(cur) - Fig.val(prev) and cell.count("(") == 1
    return len(mk) == 1 and "(" not in cell


def _md_rows(texts):
    rows = {}
    order = []
    for t in texts:
        if "\x01" not in t:
            continue
        name = t.split("|")[0].strip() if not t.startswith("|") else t.split("|")[1].strip()
        cells = [c for c in t.split("|") if "\x01" in c]
        rows[name] = cells
        order.append(name)
    return rows, order


def _check_tables(cur, prev, a, b, pa, pb):
    """cur/prev: dict name -> LanguageTotals. Checks text and markdown overview against the stored figures."""
    ok = True
    stc = ScanTotals(dict(cur))
    stp = ScanTotals(dict(prev)) if prev is not None else None
    exp_order = [t.language for t in sorted(cur.values(), key=lambda t: Fig.val(t.loc), reverse=True)]
    # ---- text: through the real entry point format_text.print_report (S-ui recorder); the overview table is the ScanResultTable it prints
    rep_c, rep_p = _report(dict(cur)), (_report(dict(prev)) if prev is not None else None)
    tcon = RecConsole()
    format_text.print_report(tcon, rep_c, rep_p)
    tables = [x for objs, _ in tcon.items for x in objs if isinstance(x, ScanResultTable)]
    if len(tables) != 1:
        return False
    tbl = tables[0]
    names = list(tbl.columns[0]._cells)
    ok = ok and sorted(names) == sorted(cur.keys())
    for i in range(len(names) - 1):
        ok = ok and Fig.val(cur[names[i]].loc) >= Fig.val(cur[names[i + 1]].loc)
    for ci, c in enumerate(COLS):
        col = tbl.columns[ci + 1]
        for ri, lang in enumerate(names):
            p = prev.get(lang) if prev is not None else None
            ok = ok and _cell_ok(col._cells[ri], getattr(cur[lang], c), getattr(p, c) if p is not None else None, prev is not None and p is not None)
        tot_c = sum(Fig.val(getattr(t, c)) for t in cur.values())
        tot_p = sum(Fig.val(getattr(t, c)) for t in prev.values()) if prev is not None else None
        ok = ok and _cell_ok(col.footer, tot_c, tot_p, prev is not None)
    ok = ok and tbl.show_footer == (len(cur) > 1)
    # ---- markdown
    con = RecConsole()
    format_markdown.print_report(con, rep_c, rep_p)
    texts = con.texts()
    cut = texts.index("### Summary") if "### Summary" in texts else len(texts)
    rows, order = _md_rows(texts[:cut])
    langs = [n for n in order if n != "**Totals**"]
    ok = ok and sorted(langs) == sorted(cur.keys())
    for i in range(len(langs) - 1):
        ok = ok and Fig.val(cur[langs[i]].loc) >= Fig.val(cur[langs[i + 1]].loc)
    for lang in langs:
        cells = rows[lang]
        ok = ok and len(cells) == 5
        p = prev.get(lang) if prev is not None else None
        # markdown column order: files, functions, loc, hard, unmaintainable
        for ci, c in enumerate(COLS):
            ok = ok and _cell_ok(cells[ci], getattr(cur[lang], c), getattr(p, c) if p is not None else None, prev is not None and p is not None)
    ok = ok and (("**Totals**" in rows) == (len(cur) > 1))
    if "**Totals**" in rows:
        cells = rows["**Totals**"]
        ok = ok and len(cells) == 5
        for ci, c in enumerate(COLS):
            tot_c = sum(Fig.val(getattr(t, c)) for t in cur.values())
            tot_p = sum(Fig.val(getattr(t, c)) for t in prev.values()) if prev is not None else None
            ok = ok and _cell_ok(cells[ci], tot_c, tot_p, prev is not None)
    return ok


def h_overview(a: int, b: int, pa: int, pb: int) -> bool:
    """
    pre: a >= 0 and b >= 0 and pa >= 0 and pb >= 0
    post: _
    """
    cur = {"Python": LT("Python", a), "Java": LT("Java", b, 1)}
    if SCEN == "same":
        prev = {"Python": LT("Python", pa), "Java": LT("Java", pb, 1)}
    elif SCEN == "added":      # Java is new in the current report
        prev = {"Python": LT("Python", pa)}
    elif SCEN == "removed":    # C existed only in the previous report
        prev = {"Python": LT("Python", pa), "Java": LT("Java", pb, 1), "C": LT("C", 5, 2)}
    elif SCEN == "nodiff":
        prev = None
    elif SCEN == "prevempty":  # the comparison report exists but holds no language at all
        prev = {}
    else:                      # single language, with comparison
        cur = {"Python": LT("Python", a)}
        prev = {"Python": LT("Python", pa)}
    ok = _check_tables(cur, prev, a, b, pa, pb)
    return fin(ok, a != pa and b == pb)


# ----------------------------------------------------------------------------- findings
def h_findings(n: int, full: bool, repo: bool) -> bool:
    """
    pre: 0 <= n <= 25
    post: _
    """
    ms = []
    k = 0
    for i in range(25):
        if i < n:
            ms.append(Measurement(f"long{i}", Location(10 + i, 1), Location(90 + i, 2), 31 + ((i * 7) % 25) * 3 + (i % 3)))
        else:
            ms.append(Measurement(f"short{i}", Location(10 + i, 1), Location(12 + i, 2), 30 if i % 4 == 0 else 1 + (i % 30)))   # every fourth short one sits exactly ON the threshold
    cb = Codebase("/r")
    cb.add_file(SourceFileEntry("a.py", "k", "Python", 0, ms[:9]))
    cb.add_file(SourceFileEntry("d/b.py", "k", "Python", 0, ms[9:]))
    r = Report.__new__(Report)
    r.version, r.uuid, r.timestamp, r.codebase = "v", "u", "t", cb
    r.repository = GithubRepository("o", "n", "b") if repo else None
    exp = sorted([m for m in ms if m.value > 30], key=lambda m: -m.value)
    shown_n = len(exp) if full else min(len(exp), 10)
    ok = True
    for fmt in ("text", "markdown"):
        con = RecConsole()
        if fmt == "text":
            format_text.print_findings(con, r, full)
        else:
            format_markdown.print_findings(r, con, full)
        texts = con.texts()
        rows = [t for t in texts if "long" in t or "short" in t]
        ok = ok and len(rows) == shown_n and not any("short" in t for t in rows)
        vals = []
        for t in rows:
            m = [m for m in exp if (m.unit_name + " ") in (t + " ") or ("[" + m.unit_name + "]") in t]
            ok = ok and len(m) >= 1
            if m:
                mm = max(m, key=lambda x: len(x.unit_name))
                vals.append(mm.value)
                ok = ok and str(mm.value) in t
        ok = ok and vals == [m.value for m in exp[:shown_n]]
        more = [t for t in texts if "more rows" in t]
        if (not full) and len(exp) > 10:
            ok = ok and len(more) == 1 and more[0].startswith(f"{len(exp) - 10} more rows")
        else:
            ok = ok and more == []
    return fin(ok, n > 10 and not full)


# ----------------------------------------------------------------------------- replay with plain ints through the real Console (no S-fmt, no S-ui)
def real_h_overview(a, b, pa, pb):
    import io
    import re
    from rich.console import Console

    def lt(lang, sym, db=0):
        t = LanguageTotals(lang)
        for c in COLS:
            setattr(t, c, sym if c == COLUMN else BASE[c] + db)
        return t
    cur = {"Python": lt("Python", a), "Java": lt("Java", b, 1)}
    if SCEN == "same":
        prev = {"Python": lt("Python", pa), "Java": lt("Java", pb, 1)}
    elif SCEN == "added":
        prev = {"Python": lt("Python", pa)}
    elif SCEN == "removed":
        prev = {"Python": lt("Python", pa), "Java": lt("Java", pb, 1), "C": lt("C", 5, 2)}
    elif SCEN == "nodiff":
        prev = None
    elif SCEN == "prevempty":
        prev = {}
    else:
        cur = {"Python": lt("Python", a)}
        prev = {"Python": lt("Python", pa)}
    cell = re.compile(r"(-?\d[\d.,]*)(?: \(([+-]\d[\d.,]*)\))?")
    problems = []
    for fmt, mod in (("text", format_text), ("markdown", format_markdown)):
        con = Console(record=True, width=200, file=io.StringIO(), force_terminal=False, color_system=None)
        mod.print_totals(con, _report(dict(cur)), _report(dict(prev)) if prev is not None else None)
        out = con.export_text()
        for lang, t in cur.items():
            line = [ln for ln in out.splitlines() if lang in ln]
            if len(line) != 1:
                problems.append(f"{fmt}: no unique row for {lang}")
                continue
            cells = cell.findall(line[0].split(lang, 1)[1])
            p = prev.get(lang) if prev is not None else None
            for ci, c in enumerate(COLS):
                if ci >= len(cells):
                    problems.append(f"{fmt}:{lang}:{c}: cell missing")
                    continue
                val, dl = cells[ci]
                cv = getattr(t, c)
                if int(val.replace(",", "").replace(".", "")) != cv:
                    problems.append(f"{fmt}:{lang}:{c}: shows {val}, stored {cv}")
                if p is not None:
                    exp = cv - getattr(p, c)
                    if (dl == "") != (exp == 0) or (dl and int(dl.replace(",", "").replace(".", "")) != exp):
                        problems.append(f"{fmt}:{lang}:{c}: annotation {dl!r}, expected {exp:+d}" if exp else f"{fmt}:{lang}:{c}: annotation {dl!r} although unchanged")
        if len(cur) > 1:
            tl = [ln for ln in out.splitlines() if "Totals" in ln] if fmt == "markdown" else []
            if fmt == "text":
                # the footer is the last table row that carries figures and no language name
                rows = [ln for ln in out.splitlines() if cell.search(ln) and not any(l in ln for l in cur)]
                tl = rows[-1:] if rows else []
            if len(tl) != 1:
                problems.append(f"{fmt}: totals row missing")
            else:
                cells = cell.findall(tl[0].split("Totals")[-1])
                for ci, c in enumerate(COLS):
                    if ci >= len(cells):
                        problems.append(f"{fmt}:Totals:{c}: cell missing")
                        continue
                    val, dl = cells[ci]
                    cv = sum(getattr(t, c) for t in cur.values())
                    if int(val.replace(",", "").replace(".", "")) != cv:
                        problems.append(f"{fmt}:Totals:{c}: shows {val}, stored {cv}")
                    if prev is not None:
                        exp = cv - sum(getattr(t, c) for t in prev.values())
                        if (dl == "") != (exp == 0) or (dl and int(dl.replace(",", "").replace(".", "")) != exp):
                            problems.append(f"{fmt}:Totals:{c}: annotation {dl!r}, expected {exp:+d}" if exp else f"{fmt}:Totals:{c}: annotation {dl!r} although unchanged")
    fmts = sorted({p.split(":")[0] for p in problems})
    kinds = sorted({"annotation" if "annotation" in p else "value" for p in problems})
    return {"reproduced": bool(problems), "sig": f"overview:{SCEN}:{'+'.join(fmts)}:{'+'.join(kinds)}", "detail": "; ".join(problems[:4])}


# ----------------------------------------------------------------------------- report_command / findings_command wiring over the in-memory FS
import json as _json

import codelimit.commands.findings as fcmd
import codelimit.commands.report as rcmd
import codelimit.utils as cutils
from codelimit.common.report.ReportWriter import ReportWriter
from vlib import fsstub
from vlib.hx import untraced


def _doc(vals, repo=False):
    cb = Codebase("/w")
    ms = [Measurement(f"fn{i}", Location(1 + i, 1), Location(50 + i, 2), v) for i, v in enumerate(vals)]
    cb.add_file(SourceFileEntry("a.py", "k", "Python", sum(vals), ms[:2]))
    cb.add_file(SourceFileEntry("d/b.java", "k2", "Java", sum(vals[2:]) if len(vals) > 2 else 0, ms[2:]))
    cb.aggregate()
    r = Report(cb, GithubRepository("o", "n", "b") if repo else None)
    return ReportWriter(r).to_json(), r


@untraced
def _commands(fmt_md, has_diff, full, n_long):
    vals_cur = [70 + i for i in range(n_long)] + [5, 9, 12]
    vals_prev = [40, 8]
    doc_c, rep_c = _doc(vals_cur)
    doc_p, rep_p = _doc(vals_prev)
    fs = fsstub.FakeFS({"/w/.codelimit_cache/codelimit.json": doc_c, "/old/report.json": doc_p}, cwd="/w")
    FP = fsstub.make_path_class(fs)
    con = RecConsole()
    saved = (rcmd.Console, fcmd.Console)
    rcmd.Console = fcmd.Console = lambda *a, **k: con
    try:
        fmt = rcmd.ReportFormat.markdown if fmt_md else rcmd.ReportFormat.text
        rcmd.report_command(FP("/w"), fmt, FP("/old/report.json") if has_diff else None)
        got_report = list(con.items)
        con.items = []
        fcmd.findings_command(FP("/w"), full, fmt)
        got_findings = con.texts()
    finally:
        rcmd.Console, fcmd.Console = saved
    # expected: the same printers called directly on the re-read reports
    from codelimit.common.report.ReportReader import ReportReader
    exp = RecConsole()
    (format_markdown if fmt_md else format_text).print_report(exp, ReportReader.from_json(doc_c), ReportReader.from_json(doc_p) if has_diff else None)
    def norm(items):
        out = []
        for objs, _ in items:
            for o in objs:
                if isinstance(o, ScanResultTable):
                    out.append([list(c._cells) + [c.footer] for c in o.columns])
                elif hasattr(o, "columns"):
                    out.append([[x.plain if hasattr(x, "plain") else str(x) for x in c._cells] for c in o.columns])
                else:
                    out.append(o.plain if hasattr(o, "plain") else str(o))
        return out
    bad = []
    if norm(got_report) != norm(exp.items):
        bad.append("report_command-output-differs-from-print_report(current, previous)")
    exp2 = RecConsole()
    if fmt_md:
        format_markdown.print_findings(ReportReader.from_json(doc_c), exp2, full)
    else:
        format_text.print_findings(exp2, ReportReader.from_json(doc_c), full)
    if got_findings != exp2.texts():
        bad.append("findings_command-output-differs-from-print_findings")
    rows = [t for t in got_findings if "fn" in t]
    if len(rows) != (n_long if full else min(n_long, 10)):
        bad.append("findings-row-count")
    return bad


def h_commands(fmt_md: bool, has_diff: bool, full: bool, n_long: int) -> bool:
    """
    pre: 0 <= n_long <= 14
    post: _
    """
    n = 0
    for k in range(15):
        if n_long == k:
            n = k
    bad = _commands(True if fmt_md else False, True if has_diff else False, True if full else False, n)
    return fin(bad == [], n > 10 and not full)
