"""Mutated canonical programs (C03 / C05): the REAL scan_file on a skeleton's real-lexer token stream after one edit at a SYMBOLIC position:
prefix (truncate after p tokens), suffix (drop the first p tokens), delete token p, duplicate token p, swap tokens p and p+1, replace token p by an
arbitrary member of the language's token alphabet. Position p and replacement class k are solver variables.

param: {"lang", "label", "op"}.  Postcondition: returns normally and every C05 clause holds for the result w.r.t. the mutated code-token stream.
"""
from codelimit.common.Location import Location
from codelimit.common.Scanner import scan_file
from codelimit.common.Token import Token
from vlib import capture, skel
from vlib.hx import fin, param, untraced

LANG = param("lang", "C")
LABEL = param("label", "two")
OP = param("op", "delete")
TOLERATE = param("tolerate", [])
ORDER = param("order", False)

import importlib.util  # noqa
import os  # noqa
import sys  # noqa

# the soup harness module provides the token alphabet of the language and the C05 clause checker (it reads the same param: lang)
_spec = importlib.util.spec_from_file_location("vh_soup_for_mut", os.path.join(os.path.dirname(os.path.abspath(__file__)), "soup.py"))
soup = importlib.util.module_from_spec(_spec)
sys.modules["vh_soup_for_mut"] = soup
_spec.loader.exec_module(soup)

_PROGS = dict(skel.programs(LANG, "quick"))
_PROGS.update(skel.extra_programs(LANG))
SK = skel.Skeleton(LANG, _PROGS[LABEL], LABEL)
LANGUAGE = capture.language(LANG)
BASE = list(SK.code)
NT = len(BASE)
ALPHA = soup.ALPHA


def mutate(p, k):
    """Token list after the edit; positions of untouched tokens stay as in the canonical text (an inserted copy sits one column-block to the right on the same line,
    which keeps (line, column) order = list order because the canonical text leaves no room conflicts: later tokens on that line are shifted by the same amount)."""
    toks = [Token(Location(t.location.line, t.location.column), t.token_type, t.value) for t in BASE]
    if OP == "none":
        return toks
    if OP == "prefix":
        return toks[:p]
    if OP == "suffix":
        return toks[p:]
    if OP == "delete":
        return toks[:p] + toks[p + 1:]
    if OP == "dup":
        t = toks[p]
        shift = len(t.value) + 1
        out = toks[:p + 1] + [Token(Location(t.location.line, t.location.column + shift), t.token_type, t.value)]
        for u in toks[p + 1:]:
            if u.location.line == t.location.line:
                out.append(Token(Location(u.location.line, u.location.column + shift), u.token_type, u.value))
            else:
                out.append(u)
        return out
    if OP == "swap":
        a, b = toks[p], toks[p + 1]
        na = Token(a.location, b.token_type, b.value)
        nb = Token(Location(b.location.line, b.location.column + (len(b.value) - len(a.value) if b.location.line == a.location.line else 0)), a.token_type, a.value)
        rest = []
        for u in toks[p + 2:]:
            rest.append(u)
        return toks[:p] + [na, nb] + rest
    if OP == "replace":
        t = toks[p]
        typ, val = ALPHA[k]
        d = len(val) - len(t.value)
        out = toks[:p] + [Token(t.location, typ, val)]
        for u in toks[p + 1:]:
            if u.location.line == t.location.line:
                out.append(Token(Location(u.location.line, u.location.column + d), u.token_type, u.value))
            else:
                out.append(u)
        return out
    raise ValueError(OP)


def _maxp():
    return {"none": 0, "prefix": NT, "suffix": NT, "delete": NT - 1, "dup": NT - 1, "swap": NT - 2, "replace": NT - 1}[OP]


def h_mut(p: int, k: int) -> bool:
    """
    pre: 0 <= p <= _maxp() and 0 <= k < len(ALPHA) and (OP == "replace" or k == 0)
    post: _
    """
    # realise the position and class by explicit branching: the token list must be concrete in shape
    pp = 0
    for i in range(NT + 1):
        if p == i:
            pp = i
    kk = 0
    for i in range(len(ALPHA)):
        if k == i:
            kk = i
    bad, n = _concrete(pp, kk)
    return fin(bad == [], n >= 1 or OP == "none")


@untraced
def _concrete(pp, kk):
    """position and class are concrete here (selected by explicit branching): run the real scan_file untraced."""
    toks = mutate(pp, kk)
    if ORDER:
        return _order_independent(toks)
    try:
        ms = scan_file(toks, LANGUAGE)
    except ValueError as e:
        if "Multiple transitions" in str(e) and any(":ValueError:" in t for t in TOLERATE):
            return [], 0          # the listed known finding (arrow-pattern ambiguity): assumed away so the other positions are still explored
        raise
    return soup.wellformed(ms, toks), len(ms)


def _outcome(toks):
    try:
        ms = scan_file([Token(Location(t.location.line, t.location.column), t.token_type, t.value) for t in toks], LANGUAGE)
        return [(m.unit_name, m.start.line, m.start.column, m.end.line, m.end.column, m.value) for m in ms]
    except Exception as e:
        return "raises " + type(e).__name__


def _order_independent(toks):
    """S-hash at scan_file level: the hash seed only changes the iteration order of sets in the automaton construction, i.e. the order of every
    DFA state's transition list. The outcome (measurements, or the kind of error) must be the same for the identity and the reversed / rotated order."""
    import codelimit.common.gsm.matcher as matcher
    base = _outcome(toks)
    real = matcher.nfa_to_dfa
    bad = []
    for how in ("reversed", "rotated"):
        def permuted(nfa, _how=how):
            dfa = real(nfa)
            seen, stack = set(), [dfa.start]
            while stack:
                st = stack.pop()
                if id(st) in seen:
                    continue
                seen.add(id(st))
                st.transition = list(reversed(st.transition)) if _how == "reversed" else st.transition[1:] + st.transition[:1]
                stack.extend(t for _, t in st.transition)
            return dfa
        matcher.nfa_to_dfa = permuted
        try:
            other = _outcome(toks)
        finally:
            matcher.nfa_to_dfa = real
        if other != base:
            bad.append(f"outcome-depends-on-transition-order({how}): {base} vs {other}")
    return bad, 1


def real_h_mut(p, k):
    from pygments.lexers import get_lexer_by_name
    from codelimit.common.lexer_utils import lex
    from codelimit.common.source_utils import filter_tokens
    toks = mutate(p, k)
    lines = {}
    for t in toks:
        ln = lines.setdefault(t.location.line, "")
        pad = t.location.column - 1 - len(ln)
        lines[t.location.line] = ln + " " * max(pad, 1 if ln else 0) + t.value
    maxl = max(lines) if lines else 0
    text = "\n".join(lines.get(i, "") for i in range(1, maxl + 1)) + "\n"
    rt = lex(get_lexer_by_name(capture.LEXER_FOR[LANG]), text, False)
    what = f"{OP} at token {p}" + (f" by {ALPHA[k][1]!r}" if OP == "replace" else "")
    if ORDER:
        bad, _n = _order_independent(filter_tokens(rt))
        if bad:
            return {"reproduced": True, "sig": f"hash-seed:{LANG}:{OP}", "detail": f"{bad[0]} [{LABEL}: {what}] on text {text!r}"}
        return {"reproduced": False, "contract_only": True, "detail": f"order dependence [{LABEL}: {what}] not reproduced through the real lexer on {text!r}"}
    try:
        ms = scan_file(rt, LANGUAGE)
    except Exception as e:
        return {"reproduced": True, "sig": f"mut:{LANG}:{type(e).__name__}:{OP}", "detail": f"{type(e).__name__}: {e} [{LABEL}: {what}] on text {text!r}"}
    bad = soup.wellformed(ms, filter_tokens(rt))
    if bad:
        return {"reproduced": True, "sig": f"mut:{LANG}:{'+'.join(sorted(set(bad)))}:{OP}", "detail": f"{bad} for {[(m.unit_name, m.start, m.end, m.value) for m in ms]} [{LABEL}: {what}] on text {text!r}"}
    return {"reproduced": False, "contract_only": True, "detail": f"token-level counterexample [{LABEL}: {what}] is not reproduced by the text {text!r} through the real lexer"}
