"""C03 (decoding and path arithmetic parts). Real code: Scanner._read_file, commands.check.check_file / check_command / _handle_file_path,
CheckResult. S-fs: vlib.fsstub in the namespaces of codelimit.commands.check and codelimit.common.Scanner."""
import typer

import codelimit.commands.check as chk
import codelimit.common.CheckResult as crmod
import codelimit.common.Scanner as scn
from codelimit.common.CheckResult import CheckResult
from vlib import fsstub
from vlib.hx import RecConsole, fin, param, untraced

_real_glff = untraced(chk.get_lexer_for_filename)
_real_spec = untraced(scn.generate_exclude_spec)


class _Rich:
    def __init__(self, con):
        self.con = con

    def print(self, *a, **k):
        self.con.print(*a, **k)


def _install(fs):
    FP = fsstub.make_path_class(fs)
    fos = fsstub.FakeOS(fs)
    saved = {}
    for mod, names in ((chk, ("os", "Path", "get_lexer_for_filename", "lex", "scan_file", "generate_exclude_spec", "open")), (scn, ("os", "Path", "open")), (crmod, ("os", "Path", "Console", "rich"))):
        for n in names:
            saved[(mod, n)] = mod.__dict__.get(n, None)
    con = RecConsole()
    chk.os, chk.Path, chk.open = fos, FP, fs.open      # (open: whichever way check_file reads, it reads the in-memory tree)
    chk.get_lexer_for_filename = lambda p, *a, **k: _real_glff(str(p), *a, **k)
    chk.lex = lambda lexer, code, fc=True: []
    chk.scan_file = lambda tokens, language: []
    chk.generate_exclude_spec = lambda root: _real_spec(FP(str(root)))
    scn.os, scn.Path, scn.open = fos, FP, fs.open
    crmod.os, crmod.Path, crmod.Console, crmod.rich = fos, FP, (lambda *a, **k: con), _Rich(con)
    return FP, saved, con


def _restore(saved):
    for (mod, n), v in saved.items():
        if v is None:
            if n in mod.__dict__:
                del mod.__dict__[n]
        else:
            setattr(mod, n, v)


def h_decode(data: bytes) -> bool:
    """
    pre: len(data) <= 3
    post: _
    """
    fs = fsstub.FakeFS({"/w/a.py": data}, cwd="/w")
    FP, saved, con = _install(fs)
    try:
        text = scn._read_file(FP("/w/a.py"))          # must not raise for any bytes
        cr = CheckResult()
        chk.check_file(FP("/w/a.py"), cr)             # must not raise for any bytes either
        try:
            exp = data.decode("utf-8")
        except UnicodeDecodeError:
            exp = data.decode("latin-1")
        exp = exp.replace("\r\n", "\n").replace("\r", "\n")      # text mode: universal newlines (the in-memory FS applies them like the real open())
        ok = text == exp and len(cr) == 1
    finally:
        _restore(saved)
    return fin(ok, len(data) == 2)


TREE = {"/w/a.py": "x", "/w/sub/b.py": "x", "/w/sub/deep/c.py": "x", "/o/x.py": "x", "/o/d/y.js": "x", "/w/.hidden/h.py": "x", "/w/tests/t.py": "x", "/w/sub/notes.txt": "x", "/w/sub/.dot.py": "x"}
CWDS = ["/w", "/w/sub", "/", "/o/d"]
ARGS = ["a.py", "sub/b.py", "./sub", "sub", "/w/sub", "/o", "/o/x.py", "..", "../o", ".", "../w/a.py", "/w", "deep", "b.py", "/w/tests", "tests/t.py", "sub/../a.py", "/", "d", "../x.py"]


CI = param("ci", 0)


def h_paths(ai: int, second: bool, quiet: bool) -> bool:
    """
    pre: 0 <= ai < len(ARGS)
    post: _
    """
    cwd = CWDS[CI]
    a1 = ARGS[0]
    for k in range(len(ARGS)):
        if ai == k:
            a1 = ARGS[k]
    a2 = "/o/d" if second else a1
    code = _run_paths(cwd, a1, a2, True if quiet else False)
    return fin(code in (0, 1), a1 == "/o")


@untraced
def _run_paths(cwd, a1, a2, quiet):
    """Everything is concrete here (the pool members were selected by explicit branching): run the real check_command untraced."""
    fs = fsstub.FakeFS(dict(TREE), cwd=cwd)
    FP, saved, con = _install(fs)
    code = None
    try:
        try:
            chk.check_command([FP(a1), FP(a2)], quiet)     # typer validates existence; non-existing arguments are simply neither file nor dir here
        except typer.Exit as e:
            code = e.exit_code
    finally:
        _restore(saved)
    return code
