"""C11 / C12 — which files are analysed (scan_path) and checked (check_command), over the in-memory FS (S-fs).

param: {"cfg": index of exclusion configuration, "root": index of the way the root is named, "mode": scan | check, "arg": index of the way the file is reached (check)}
Tree: /w/src/main.py (always), /w/<F1>, /w/<D1>/m.py, /w/<D1>/<D2>/<F3> with D1, D2, F1, F3 chosen by the solver from pools that contain a witness for every region of
{hidden} x {built-in / config / option / .gitignore excluded} x {supported, unsupported, no extension}. Everything is concrete once chosen; the real code then runs untraced.
Oracle: reference semantics of the five unambiguous gitignore pattern classes (own regexes, proved equivalent to pathspec's compiled regexes for unbounded paths by the z3 queries in checks/C11.py).
"""
import re

import typer

import codelimit.commands.check as chk
import codelimit.common.CheckResult as crmod
import codelimit.common.Scanner as scn
from codelimit.common.Configuration import Configuration
from codelimit.common.Location import Location
from codelimit.common.Measurement import Measurement
from vlib import fsstub
from vlib.hx import RecConsole, fin, param, untraced

DIRS = ["src", ".git", ".cfg", "tests", "build", "node_modules", "venv", "gen", "tmp", "out", "a", "b", "lib", "test"]
FILES = ["m.py", ".h.py", "n.js", "r.txt", "noext", "x.min.js", "b", "t.ts", "k.java", "c.c", "p.cpp", "s.cs", "tests", "SConstruct", "LICENSE"]
BY_NAME = {"SConstruct": "Python"}     # extension-less names Pygments maps to a supported language
LANG = {"py": "Python", "js": "JavaScript", "ts": "TypeScript", "java": "Java", "c": "C", "cpp": "C++", "cs": "C#"}
CFGS = [
    {"config": [], "option": [], "gitignore": None},
    {"config": ["gen/"], "option": ["*.min.js"], "gitignore": "out\n"},
    {"config": ["a/b"], "option": ["a/*"], "gitignore": "tmp/\n# comment\n\nlib\n"},
    {"config": ["lib", "src/"], "option": [], "gitignore": "*.py\n"},
    {"config": ["/lib"], "option": ["/b"], "gitignore": "/out\n"},
    {"config": ["gen", "!gen/m.py"], "option": ["tmp/", "!tmp/lib/m.py"], "gitignore": "lib\n!lib/b/\n"},     # negation (outside the statement's pattern classes; last match wins)
]
ROOTS = [("/w", "/w"), (".", "/w"), ("..", "/w/src"), ("w", "/"), ("/w/src/..", "/x"), ("../w", "/x")]     # (root argument, cwd)
CFG = CFGS[param("cfg", 0)]
ROOT_ARG, ROOT_CWD = ROOTS[param("root", 0)]
MODE = param("mode", "scan")
_real_glff = untraced(scn.get_lexer_for_filename)
_real_spec = untraced(scn.generate_exclude_spec)


def classify(s):
    if s.startswith("/"):
        return "rooted"
    if s.endswith("/*"):
        return "star"
    if s.endswith("/"):
        return "anchored-dir" if "/" in s[:-1] else "dir"     # a separator in the middle anchors the pattern to the root
    if s.startswith("*."):
        return "ext"
    if "/" in s:
        return "anchored"
    return "name"


def ref_regex(s):
    """Reference semantics of one exclusion entry as a Python regex over root-relative file paths (own construction, not pathspec's)."""
    k = classify(s)
    e = re.escape
    if k == "name":
        return rf"(?:.+/)?{e(s)}(?:/.*)?"
    if k == "dir":
        return rf"(?:.+/)?{e(s[:-1])}/.*"
    if k == "anchored-dir":
        return rf"{e(s[:-1])}/.*"
    if k == "ext":
        return rf"(?:.+/)?[^/]*{e(s[1:])}(?:/.*)?"
    if k == "anchored":
        return rf"{e(s)}(?:/.*)?"
    if k == "rooted":            # leading slash: only at the root
        return rf"{e(s[1:])}(?:/.*)?"
    return rf"{e(s[:-1])}[^/]+(?:/.*)?"


def excluded_ref(rel, builtin):
    pats = list(builtin) + CFG["config"] + CFG["option"]
    if CFG["gitignore"] is not None:
        pats += [ln for ln in CFG["gitignore"].splitlines() if ln.strip() and not ln.startswith("#")]
    res = False
    for p in pats:                       # gitignore: the last matching entry decides; a leading '!' re-includes
        neg = p.startswith("!")
        if re.fullmatch(ref_regex(p[1:] if neg else p), rel):
            res = not neg
    return res


def hidden(rel):
    return any(c.startswith(".") for c in rel.split("/"))


def language_of(name):
    if name in BY_NAME:
        return BY_NAME[name]
    if "." not in name or name.startswith(".") and name.count(".") == 1:
        return None
    return LANG.get(name.rsplit(".", 1)[1])


DUP = param("dup", False)     # the top-level file and the deep file are byte-identical (vendored copies, empty files): still two files, each with the language of its own name


def tree_files(d1, d2, f1, f3):
    fs = {"/w/src/main.py": "main", "/w/" + FILES[f1]: ("dup" if DUP else "f1"), "/w/" + DIRS[d1] + "/m.py": "f2", "/w/" + DIRS[d1] + "/" + DIRS[d2] + "/" + FILES[f3]: ("dup" if DUP else "f3"), "/x/other.py": "outside"}
    if CFG["gitignore"] is not None:
        fs["/w/.gitignore"] = CFG["gitignore"]
    # two hidden directories next to each other in the listing, under the root and under src (pruning must not depend on what the neighbour is)
    fs.update({"/w/.h1/a.py": "h1", "/w/.h2/b.py": "h2", "/w/src/.h3/c.py": "h3", "/w/src/.h4/d.py": "h4"})
    return fs


def measurements_for(content):
    k = sum(ord(c) for c in content)
    # two of the long functions share a name (overloads / __init__ of two classes): they are still two functions
    return [Measurement(f"fn_{content}_{'same' if j else 'short'}", Location(3 + j, 1 + j), Location(40 + j, 2), v) for j, v in enumerate([10 + k % 7, 31 + k % 29, 61 + k % 13])]


class _Rich:
    def __init__(self, con):
        self.con = con

    def print(self, *a, **k):
        self.con.print(*a, **k)


class _Lexer:
    def __init__(self, name):
        self._n = name

    @property
    def name(self):
        return self._n


_SNAP = None


def _fresh_process_state():
    """every explored path (and the replay) starts from the module/class-level state of a freshly imported package"""
    from vlib.hx import StateSnapshot
    global _SNAP
    if _SNAP is None:
        _SNAP = StateSnapshot()
    _SNAP.restore()


def _install(fs, analysed, checked_texts):
    _fresh_process_state()
    FP = fsstub.make_path_class(fs)
    fos = fsstub.FakeOS(fs)
    con = RecConsole()
    saved = {}

    def setp(mod, name, val):
        saved[(mod, name)] = mod.__dict__.get(name, None)
        setattr(mod, name, val)

    def fake_analyze(path, rel_path, checksum, lexer):
        analysed.append(rel_path)
        content = fs.read(str(path))
        ms = measurements_for(content)
        from codelimit.common.SourceFileEntry import SourceFileEntry
        return SourceFileEntry(rel_path, checksum, lexer.__class__.name, sum(m.value for m in ms), ms)

    def fake_lex(lexer, code, fc=True):
        return code                      # "tokens" = the decoded text (identifies the file)

    def fake_scan_file(tokens, language):
        checked_texts.append(tokens)
        return measurements_for(tokens)

    for mod in (scn, chk):
        setp(mod, "os", fos)
        setp(mod, "Path", FP)
        setp(mod, "open", fs.open)
        setp(mod, "get_lexer_for_filename", lambda p, *a, **k: _real_glff(str(p), *a, **k))
    setp(scn, "relpath", fos.relpath)
    setp(scn, "calculate_checksum", lambda p: "md5:" + fs.read(str(p)))
    setp(scn, "_analyze_file", fake_analyze)
    setp(scn, "generate_exclude_spec", lambda root: _real_spec(FP(str(root))))
    setp(chk, "generate_exclude_spec", lambda root: _real_spec(FP(str(root))))
    setp(chk, "lex", fake_lex)
    setp(chk, "scan_file", fake_scan_file)
    for n, v in (("os", fos), ("Path", FP), ("Console", lambda *a, **k: con), ("rich", _Rich(con))):
        setp(crmod, n, v)
    saved_excl = list(Configuration.exclude)
    Configuration.exclude[:] = CFG["config"] + CFG["option"]

    def restore():
        Configuration.exclude[:] = saved_excl
        for (mod, name), val in saved.items():
            if val is None:
                if name in mod.__dict__:
                    del mod.__dict__[name]
            else:
                setattr(mod, name, val)
    return FP, con, restore


def qualifying(files, builtin):
    out = {}
    for absp, content in files.items():
        if not absp.startswith("/w/"):
            continue
        rel = absp[3:]
        lang = language_of(rel.rsplit("/", 1)[-1])
        if hidden(rel) or excluded_ref(rel, builtin) or lang is None:
            continue
        out[rel] = (lang, "md5:" + content)
    return out


@untraced
def _scan(d1, d2, f1, f3):
    files = tree_files(d1, d2, f1, f3)
    fs = fsstub.FakeFS(files, cwd=ROOT_CWD, dirs={"/x", "/w/src"})
    analysed, checked = [], []
    FP, con, restore = _install(fs, analysed, checked)
    try:
        builtin = list(scn.DEFAULT_EXCLUDES)
        cb = scn.scan_path(FP(ROOT_ARG))
    finally:
        restore()
    exp = qualifying(files, builtin)
    bad = []
    got = {k: (e.language, e.checksum()) for k, e in cb.files.items()}
    if got != exp:
        extra, missing = sorted(set(got) - set(exp)), sorted(set(exp) - set(got))
        bad.append(f"analysed-but-should-not:{extra}" if extra else f"not-analysed:{missing}" if missing else "wrong-language-or-checksum")
    if sorted(analysed) != sorted(exp.keys()):
        bad.append("analyze-calls-differ")
    if cb.root != "/w":
        bad.append("root-not-resolved")
    return bad


def _pick(x, n):
    for k in range(n):
        if x == k:
            return k
    return 0


def h_scan(d1: int, d2: int, f1: int, f3: int) -> bool:
    """
    pre: 0 <= d1 < len(DIRS) and 0 <= d2 < len(DIRS) and 0 <= f1 < len(FILES) and 0 <= f3 < len(FILES) and (FIX_F1 is None or f1 == FIX_F1)
    post: _
    """
    bad = _scan(_pick(d1, len(DIRS)), _pick(d2, len(DIRS)), _pick(f1, len(FILES)), _pick(f3, len(FILES)))
    return fin(bad == [], True)


FIX_F1 = param("fix_f1", None)
FIX_F3 = param("fix_f3", 0)


def real_h_scan(d1, d2, f1, f3):
    f = _scan.__wrapped__ if hasattr(_scan, "__wrapped__") else _scan
    bad = f(d1, d2, f1, f3)
    kinds = sorted({b.split(":")[0] for b in bad})
    return {"reproduced": bool(bad), "sig": f"scan-selection:{'+'.join(kinds)}", "detail": f"tree {sorted(tree_files(d1, d2, f1, f3))} cfg {CFG} root {ROOT_ARG!r} (cwd {ROOT_CWD}): {bad}"}


# ----------------------------------------------------------------------------------------------- C12: check vs scan (cwd = root = /w)
ARGS = ["file", "parent", "grandparent", "root-rel", "root-abs", "parent-abs"]
ARG = ARGS[param("arg", 0)]
QUIET_FIXED = param("quiet_fixed", False)
TOLERATE = param("tolerate", [])


@untraced
def _check(d1, d2, f3, quiet):
    files = tree_files(d1, d2, 0, f3)
    fs = fsstub.FakeFS(files, cwd="/w", dirs={"/x", "/w/src"})
    analysed, checked = [], []
    FP, con, restore = _install(fs, analysed, checked)
    rel_target = DIRS[d1] + "/" + DIRS[d2] + "/" + FILES[f3]
    arg = {"file": rel_target, "parent": DIRS[d1] + "/" + DIRS[d2], "grandparent": DIRS[d1], "root-rel": ".", "root-abs": "/w", "parent-abs": "/w/" + DIRS[d1] + "/" + DIRS[d2]}[ARG]
    code = None
    try:
        builtin = list(scn.DEFAULT_EXCLUDES)
        cb = scn.scan_path(FP("/w"))
        try:
            chk.check_command([FP(arg)], quiet)
        except typer.Exit as e:
            code = e.exit_code
    finally:
        restore()
    bad = []
    if code not in (0, 1):
        return ["check-did-not-exit-normally"]
    scanned = {k: e for k, e in cb.files.items()}
    # files below the argument (or the file itself)
    base = "" if ARG in ("root-rel", "root-abs") else (arg[3:] if arg.startswith("/w/") else arg)
    below = [p[3:] for p in files if p.startswith("/w/") and (ARG == "file" and p[3:] == base or ARG != "file" and (base == "" or p[3:].startswith(base + "/")))]
    rows = [t for t in con.texts() if "files checked" not in t]
    listed = {}
    for t in rows:
        path = t.split(":", 1)[0]
        listed.setdefault(path, []).append(t)
    exp_listed = {}
    for rel in below:
        name = rel.rsplit("/", 1)[-1]
        lang = language_of(name)
        excl = excluded_ref(rel, builtin)
        hid = hidden(rel)
        in_scan = rel in scanned
        # the statement: excluded -> skipped however reached; hidden -> skipped when reached through a directory; analysed by scan -> checked
        scan_skipped_as_excluded = (not in_scan) and lang is not None and not hid      # what scan itself decided for this file
        must_skip = excl or scan_skipped_as_excluded or (hid and ARG != "file") or lang is None
        must_check = in_scan
        if must_skip and must_check:
            bad.append("oracle-inconsistent")
        if must_check or (not must_skip):
            # expected rows: the functions longer than 30 lines that scan measures for this file (fresh measurements for files scan did not analyse)
            ms = scanned[rel].measurements() if in_scan else measurements_for(files["/w/" + rel])
            risks = sorted([m for m in ms if m.value > 30], key=lambda m: -m.value)
            exp_listed[rel] = [f"{rel}:{m.start.line}:{m.start.column}: {m.value} {'✖' if m.value > 60 else '⚠'} {m.unit_name}" for m in risks]
    if listed != exp_listed:
        extra, missing = sorted(set(listed) - set(exp_listed)), sorted(set(exp_listed) - set(listed))
        bad.append(f"checked-but-should-be-skipped:{extra}" if extra else f"not-checked:{missing}" if missing else "listing-differs-from-scan")
    n_un = sum(1 for rows_ in exp_listed.values() for r in rows_ if "✖" in r)
    if not bad and code != (1 if n_un else 0):
        bad.append("exit-code")
    return bad


def h_check(d1: int, d2: int, f3: int, quiet: bool) -> bool:
    """
    pre: 0 <= d1 < len(DIRS) and 0 <= d2 < len(DIRS) and 0 <= f3 < len(FILES) and (not QUIET_FIXED or not quiet)
    post: _
    """
    if TOLERATE:
        return fin(_check_tolerant(_pick(d1, len(DIRS)), _pick(d2, len(DIRS)), _pick(f3, len(FILES)), True if quiet else False), True)
    bad = _check(_pick(d1, len(DIRS)), _pick(d2, len(DIRS)), _pick(f3, len(FILES)), True if quiet else False)
    return fin(bad == [], True)


@untraced
def _check_tolerant(d1, d2, f3, quiet):
    bad = _check.__wrapped__(d1, d2, f3, quiet)
    if not bad:
        return True
    return _classify(d1, d2, f3, bad) in TOLERATE


def _classify(d1, d2, f3, bad):
    return real_h_check(d1, d2, f3, False, bad)["sig"]


def real_h_check(d1, d2, f3, quiet, bad=None):
    f = _check.__wrapped__ if hasattr(_check, "__wrapped__") else _check
    if bad is None:
        bad = f(d1, d2, f3, quiet)
    kinds = sorted({b.split(":")[0] for b in bad})
    # classify: were the wrongly checked files hidden only through a dot-component of the directory argument itself?
    argdir = {"parent": DIRS[d1] + "/" + DIRS[d2], "grandparent": DIRS[d1], "parent-abs": DIRS[d1] + "/" + DIRS[d2]}.get(ARG, "")
    extra = []
    for b in bad:
        if b.startswith("checked-but-should-be-skipped:"):
            extra = eval(b.split(":", 1)[1])
    only_arg = bool(extra) and hidden(argdir) and all(not hidden(x[len(argdir) + 1:]) and not excluded_ref(x, list(scn.DEFAULT_EXCLUDES)) for x in extra)
    return {"reproduced": bool(bad), "sig": f"check-vs-scan:{ARG}:{'+'.join(kinds)}" + (":dot-component-in-the-directory-argument" if only_arg else ""), "detail": f"target {DIRS[d1]}/{DIRS[d2]}/{FILES[f3]} reached as {ARG} cfg {CFG}: {bad}"}


# ----------------------------------------------------------------------------------------------- C06: directory traversal order
@untraced
def _scan_sig(d1, d2, f3, rev, rot):
    files = tree_files(d1, d2, 0, f3)
    files["/w/src/util.js"] = "dup2"        # byte-identical files under two languages, visited in either order
    files["/w/lib2/z.py"] = "dup2"
    fs = fsstub.FakeFS(files, cwd="/w", dirs={"/x", "/w/src"})
    if rev or rot:
        def order(names):
            names = list(reversed(names)) if rev else list(names)
            return names[1:] + names[:1] if rot and names else names
        fs.order = order
    analysed, checked = [], []
    FP, con, restore = _install(fs, analysed, checked)
    try:
        cb = scn.scan_path(FP("/w"))
        cb.aggregate()
    finally:
        restore()
    tot = {k: (t.files, t.loc, t.functions, t.hard_to_maintain, t.unmaintainable) for k, t in cb.totals.items()}
    tree = {k: (sorted(e.name for e in f.entries), f.profile) for k, f in cb.tree.items()}
    fl = {k: (e.checksum(), e.language, e.loc, [(m.unit_name, m.value) for m in e.measurements()]) for k, e in cb.files.items()}
    return tot, tree, fl, sorted(analysed)


def h_walk_order(d1: int, d2: int, f3: int, rev: bool, rot: bool) -> bool:
    """
    pre: 0 <= d1 < len(DIRS) and 0 <= d2 < len(DIRS) and f3 == FIX_F3
    post: _
    """
    a, b, c = _pick(d1, len(DIRS)), _pick(d2, len(DIRS)), _pick(f3, len(FILES))
    base = _scan_sig(a, b, c, False, False)
    other = _scan_sig(a, b, c, True if rev else False, True if rot else False)
    return fin(base == other, rev)


# ----------------------------------------------------------------------------------------------- C11: the exclusion SOURCES are combined (command line + .codelimit.yml + .gitignore)
OPTS = [None, ["gen/"], ["*.min.js", "tmp"]]
YMLS = [None, "exclude:\n  - out\n", "verbose: false\n", "exclude: [a/b, lib]\n",
        # order-sensitive entries: a later '!' entry re-includes what an earlier one excluded (the entries must reach the matcher in the order they were written)
        "exclude:\n" + "".join(f"  - 'n{i}/*'\n  - '!n{i}/keep.py'\n" for i in range(1, 5))]
GITS = [None, "venv2\n"]
SRC_TREE = ["src/main.py", "gen/m.py", "k/x.min.js", "tmp/m.py", "out/m.py", "a/b/m.py", "a/c.py", "lib/m.py", "venv2/m.py", "tests/t.py"] + [f"n{i}/{n}.py" for i in range(1, 5) for n in ("keep", "x")]


@untraced
def _cli(oi, yi, gi, which):
    import codelimit.__main__ as cm
    import codelimit.common.Configuration as cfgmod
    files = {"/w/" + p: p for p in SRC_TREE}
    if YMLS[yi] is not None:
        files["/w/.codelimit.yml"] = YMLS[yi]
    if GITS[gi] is not None:
        files["/w/.gitignore"] = GITS[gi]
    fs = fsstub.FakeFS(files, cwd="/w", dirs={"/x"})
    analysed, checked = [], []
    FP, con, restore = _install(fs, analysed, checked)
    got = {}
    saved = {}
    for mod, name, val in ((cm, "scan_command", lambda path: got.update(files=sorted(scn.scan_path(path).files.keys()))), (cm, "setup_logging", lambda: None), (cm, "configure_github_repository", lambda p: None),
                           (cm, "check_command", lambda paths, quiet: got.update(files=sorted(scn.scan_path(FP("/w")).files.keys()))), (cm, "Path", FP), (cfgmod, "open", fs.open)):
        saved[(mod, name)] = mod.__dict__.get(name)
        setattr(mod, name, val)
    Configuration.exclude[:] = []
    old_verbose = Configuration.verbose
    try:
        if which == "scan":
            cm.scan(FP("/w"), exclude=(list(OPTS[oi]) if OPTS[oi] is not None else None), verbose=False)     # a copy: the code under test may keep or mutate the list
        else:
            cm.check([FP("/w")], exclude=(list(OPTS[oi]) if OPTS[oi] is not None else None), quiet=True, verbose=False)
        builtin = list(scn.DEFAULT_EXCLUDES)
    finally:
        Configuration.verbose = old_verbose
        for (mod, name), val in saved.items():
            if val is None:
                del mod.__dict__[name]
            else:
                setattr(mod, name, val)
        restore()
        Configuration.exclude[:] = []
    import yaml
    pats = list(builtin) + list(OPTS[oi] or [])
    if YMLS[yi] is not None:
        pats += list((yaml.safe_load(YMLS[yi]) or {}).get("exclude", []))
    if GITS[gi] is not None:
        pats += [ln for ln in GITS[gi].splitlines() if ln]
    def _excluded(p):
        res = False
        for x in pats:                    # gitignore semantics: the last matching entry decides; '!' re-includes
            neg = x.startswith("!")
            if re.fullmatch(ref_regex(x[1:] if neg else x), p):
                res = not neg
        return res
    exp = sorted(p for p in SRC_TREE if language_of(p.rsplit("/", 1)[-1]) and not hidden(p) and not _excluded(p))
    if got.get("files") != exp:
        extra = sorted(set(got.get("files") or []) - set(exp))
        return [f"exclusion-source-lost:analysed {extra}" if extra else f"selection-differs: got {got.get('files')} expected {exp}"]
    return []


def h_cli_sources(oi: int, yi: int, gi: int, as_check: bool) -> bool:
    """
    pre: 0 <= oi < len(OPTS) and 0 <= yi < len(YMLS) and 0 <= gi < len(GITS)
    post: _
    """
    bad = _cli(_pick(oi, len(OPTS)), _pick(yi, len(YMLS)), _pick(gi, len(GITS)), "check" if as_check else "scan")
    return fin(bad == [], oi == 1 and yi == 1)


def real_h_cli_sources(oi, yi, gi, as_check):
    f = _cli.__wrapped__ if hasattr(_cli, "__wrapped__") else _cli
    bad = f(oi, yi, gi, "check" if as_check else "scan")
    return {"reproduced": bool(bad), "sig": "exclusion-sources:" + "+".join(sorted({b.split(":")[0] for b in bad})), "detail": f"--exclude {OPTS[oi]} .codelimit.yml {YMLS[yi]!r} .gitignore {GITS[gi]!r} via {'check' if as_check else 'scan'}: {bad}"}


# ----------------------------------------------------------------------------------------------- C12: the REAL shared pipeline on both sides (real lexers, real scan_file), concrete sample files
def _long(n, indent="  ", end=";"):
    return "".join(f"{indent}v{i} = {i}{end}\n" for i in range(n))


REAL_FILES = {
    "plain.py": "def plain(a):\n" + _long(35, "    ", "") + "    return a\n\n\ndef small(b):\n    return b\n",
    "opted.py": "def opted_out(a):  # nocl generated\n" + _long(40, "    ", "") + "    return a\n\n\ndef kept(b):\n" + _long(33, "    ", "") + "    return b\n",
    "huge.js": "function huge(a) {\n" + _long(70) + "  return a;\n}\n\nfunction mid(b) { // NOCL\n" + _long(45) + "}\n\nconst arrow = (c) => {\n" + _long(31) + "};\n",
    "Svc.java": "class Svc {\n  int work(int a) throws E {\n" + _long(62, "    ") + "    return a;\n  }\n  /* nocl */ int skip(int b) {\n" + _long(40, "    ") + "    return b;\n  }\n}\n",
    "lat1.py": b"# caf\xe9\ndef latin(a):\n" + _long(36, "    ", "").encode() + b"    return a\n",
    "twice.py": "class A:\n    def __init__(self):\n" + _long(34, "        ", "") + "\n\nclass B:\n    def __init__(self):\n" + _long(36, "        ", "") + "\n",
    "bom.py": b"\xef\xbb\xbfdef bom_first(a):\n" + _long(36, "    ", "").encode() + b"    return a\n",                                   # UTF-8 with a byte-order mark, function on line 1
    "cp1251.py": b"# -*- coding: cp1251 -*-\ndef \xee\xf2\xf7\xb8\xf2(a):\n" + _long(38, "    ", "").encode() + b"    return a\n",      # PEP 263 cookie, identifier bytes that are not UTF-8
    "ring.h": "/**\n * Ring buffer.\n * @code\n *   ring_sum(r);\n * @endcode\n */\nint ring_sum(int a) {\n" + _long(40) + "  return a;\n}\n",      # an extension several Pygments lexers claim; the text scores for another lexer
    "[id].js": "function page(a) {\n" + _long(33) + "  return a;\n}\n",                                                                # a file name that looks like console markup
    "cmt.c": "int f(int a) {\n// only a comment\n" + "".join(f"  v{i} = {i}; /* c */\n\n" for i in range(32)) + "  return a;\n}\n",
}
REAL_NAMES = sorted(REAL_FILES)


@untraced
def _check_real(fi, ai, quiet):
    name = REAL_NAMES[fi]
    files = {"/w/src/main.py": "x = 1\n", "/w/pkg/sub/" + name: REAL_FILES[name], "/w/pkg/other.py": REAL_FILES["plain.py"]}
    fs = fsstub.FakeFS(files, cwd="/w")
    _fresh_process_state()
    FP = fsstub.make_path_class(fs)
    fos = fsstub.FakeOS(fs)
    con = RecConsole()
    saved = {}

    def setp(mod, n, v):
        saved[(mod, n)] = mod.__dict__.get(n, None)
        setattr(mod, n, v)
    import hashlib
    for mod in (scn, chk):
        setp(mod, "os", fos)
        setp(mod, "Path", FP)
        setp(mod, "open", fs.open)
        setp(mod, "get_lexer_for_filename", lambda p, *a, **k: _real_glff(str(p), *a, **k))
    import io
    import tokenize
    setp(tokenize, "_builtin_open", lambda f, mode="rb", *a, **k: io.BytesIO(fs.read(str(f), binary=True)))      # tokenize.open() is one more way to read a source file
    setp(scn, "relpath", fos.relpath)
    setp(scn, "calculate_checksum", lambda p: hashlib.md5(fs.read(str(p), binary=True)).hexdigest())
    setp(scn, "generate_exclude_spec", lambda root: _real_spec(FP(str(root))))
    setp(chk, "generate_exclude_spec", lambda root: _real_spec(FP(str(root))))
    for n, v in (("os", fos), ("Path", FP), ("Console", lambda *a, **k: con), ("rich", _Rich(con))):
        setp(crmod, n, v)
    arg = ["pkg/sub/" + name, "pkg/sub", "pkg", ".", "/w", "/w/pkg/sub"][ai]
    code = None
    try:
        cb = scn.scan_path(FP("/w"))
        try:
            chk.check_command([FP(arg)], quiet)
        except typer.Exit as e:
            code = e.exit_code
    finally:
        for (mod, n), v in saved.items():
            if v is None:
                if n in mod.__dict__:
                    del mod.__dict__[n]
            else:
                setattr(mod, n, v)
    rel = "pkg/sub/" + name
    rows = [t for t in con.texts() if t.startswith(rel + ":")]
    ms = sorted([m for m in cb.files[rel].measurements() if m.value > 30], key=lambda m: -m.value)
    exp = [f"{rel}:{m.start.line}:{m.start.column}: {m.value} {'✖' if m.value > 60 else '⚠'} {m.unit_name}" for m in ms]
    bad = []
    if rows != exp:
        bad.append(f"listing-differs-from-scan: check {rows} scan {exp}")
    if code not in (0, 1):
        bad.append("check-did-not-exit-normally")
    return bad


def h_check_real(fi: int, ai: int, quiet: bool) -> bool:
    """
    pre: 0 <= fi < len(REAL_NAMES) and 0 <= ai < 6
    post: _
    """
    bad = _check_real(_pick(fi, len(REAL_NAMES)), _pick(ai, 6), True if quiet else False)
    return fin(bad == [], True)


def real_h_check_real(fi, ai, quiet):
    f = _check_real.__wrapped__ if hasattr(_check_real, "__wrapped__") else _check_real
    bad = f(fi, ai, quiet)
    return {"reproduced": bool(bad), "sig": "check-vs-scan:real-pipeline:" + "+".join(sorted({b.split(":")[0] for b in bad})), "detail": f"file {REAL_NAMES[fi]} reached as #{ai}: {bad}"}
