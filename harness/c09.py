"""C09 / C10 — one step of the real scan_command from an ARBITRARY abstract state (tree, cache file) over the in-memory FS (S-fs).

State: for each pool path the file is absent or holds content id c (checksum K[c], A-md5: distinct contents have distinct checksums); the cache file is absent, or
a report written by the real ReportWriter whose entry for each path is absent or is the analysis A(path, c') of SOME content id c' (stale entries included),
written by the running version or by another one. The analysis itself is an uninterpreted function: Scanner._analyze_file is replaced by a table lookup that
records its calls. All state components are solver variables selected by symbolic index; the step itself then runs concretely (the writer formats integers, which
CrossHair can only do on concrete values).

Oracle: report == {p -> A(p, tree[p])} for exactly the present supported paths; analysed paths == those whose cached entry is absent or has another checksum
(all present paths when the cache is from another version); the cache written satisfies the invariant again (so the step composes to histories of any length).
C10 modes damage the cache text first (truncation at a symbolic offset, structural faults).
"""
import json

import typer

import codelimit.commands.scan as scanmod
import codelimit.common.Scanner as scn
import codelimit.common.report.Report as rmod
import codelimit.utils as cutils
from codelimit.common.Codebase import Codebase
from codelimit.common.Location import Location
from codelimit.common.Measurement import Measurement
from codelimit.common.SourceFileEntry import SourceFileEntry
from codelimit.common.report.Report import Report
from codelimit.common.report.ReportReader import ReportReader
from codelimit.common.report.ReportWriter import ReportWriter
from vlib import fsstub
from vlib.hx import RecConsole, fin, param, untraced

POOL = param("pool", ["a.py", "d/a.py"])
NCONT = param("ncont", 2)
EXTRA = {"/w/notes.txt": "x", "/w/.hidden/h.py": "x", "/w/tests/t.py": "x"}     # never analysed (unsupported / hidden / excluded)
MODE = param("mode", "step")
FIX_T0 = param("fix_t0", None)
LANG_OF = {"py": "Python", "js": "JavaScript"}
_real_glff = untraced(scn.get_lexer_for_filename)
_real_spec = untraced(scn.generate_exclude_spec)


class _U:
    n = 0

    @staticmethod
    def uuid4():
        _U.n += 1
        return f"uuid-{_U.n}"


class _D:
    @staticmethod
    def now(tz=None):
        class _T:
            def isoformat(self, timespec="seconds"):
                return "2026-01-01T00:00:00+00:00"
        return _T()


class _Live:
    last = None

    def __init__(self, *a, **k):
        pass

    def __enter__(self):
        return self

    def __exit__(self, *a):
        return False

    def update(self, table, *a, **k):
        _Live.last = table

    def stop(self):
        pass

    def refresh(self):
        pass


def K(c):
    return f"checksum-of-content-{c}"


def A(path, c):
    """The uninterpreted analysis: an entry that depends on (path, content id) only; distinct arguments give distinct results."""
    pi = POOL.index(path)
    vals = [5 + 7 * pi + 3 * c, 31 + 11 * pi + 17 * c]
    ms = [Measurement(f"{path}#{c}#{j}", Location(1 + j + c, 1 + pi), Location(9 + j + c, 2), v) for j, v in enumerate(vals)]
    return SourceFileEntry(path, K(c), LANG_OF[path.rsplit(".", 1)[1]], sum(vals), ms)


def entry_sig(e):
    return (e.path, e.checksum(), e.language, e.loc, [(m.unit_name, m.start.line, m.start.column, m.end.line, m.end.column, m.value) for m in e.measurements()])


def make_cache_text(cached, same_version, pretty=True, alter=0):
    """What a previous scan (real writer) left behind: entries {p -> A(p, c')}. alter: 1 = the first entry lost its functions ("measurements": []), 2 = ("measurements": {}),
    3 = its loc was changed - an entry whose line total no longer equals the sum of its function lengths is not what any scan wrote;
    4 / 5 / 6 = the document's version key is missing / null / empty."""
    cb = Codebase("/w")
    for p, c in cached.items():
        cb.add_file(A(p, c))
    cb.aggregate()
    saved = (rmod.uuid4, rmod.datetime)
    rmod.uuid4, rmod.datetime = _U.uuid4, _D
    try:
        r = Report(cb)
    finally:
        rmod.uuid4, rmod.datetime = saved
    if not same_version:
        r.version = "0.0.0-other"
    text = ReportWriter(r, pretty).to_json()
    if alter and cached:
        d = json.loads(text)
        k = sorted(d["codebase"]["files"])[0]
        if alter == 1:
            d["codebase"]["files"][k]["measurements"] = []
        elif alter == 2:
            d["codebase"]["files"][k]["measurements"] = {}
        elif alter == 3:
            d["codebase"]["files"][k]["loc"] += 1
        elif alter == 4:
            del d["version"]                 # a document that does not say which version wrote it was not (verifiably) written by this one
        elif alter == 5:
            d["version"] = None
        else:
            d["version"] = ""
        text = json.dumps(d, indent=2)
    return text


def run_step(tree, cache_text, cache_dir_exists=True, marker_files=True):
    """Run the REAL scan_command on the in-memory state. Returns dict(outcome...)."""
    files = dict(EXTRA)
    for p, c in tree.items():
        files["/w/" + p] = f"<content {c}>"
    dirs = set()
    if cache_dir_exists or cache_text is not None:
        dirs.add("/w/.codelimit_cache")
    if cache_text is not None:
        files["/w/.codelimit_cache/codelimit.json"] = cache_text
    if marker_files and "/w/.codelimit_cache" in dirs:
        files["/w/.codelimit_cache/CACHEDIR.TAG"] = "Signature: 8a477f597d28d172789f06886806bc55"
        files["/w/.codelimit_cache/.gitignore"] = "*\n"
    fs = fsstub.FakeFS(files, cwd="/w", dirs=dirs)
    FP = fsstub.make_path_class(fs)
    fos = fsstub.FakeOS(fs)
    analysed = []
    content_of = {"/w/" + p: c for p, c in tree.items()}

    def fake_analyze(path, rel_path, checksum, lexer):
        analysed.append(rel_path)
        return A(rel_path, content_of[str(path)])

    con = RecConsole()
    saved = {}
    patches = [(scn, "os", fos), (scn, "Path", FP), (scn, "relpath", fos.relpath), (scn, "open", fs.open), (scn, "calculate_checksum", lambda p: K(content_of[str(p)])), (scn, "_analyze_file", fake_analyze),
               (scn, "get_lexer_for_filename", lambda p: _real_glff(str(p))), (scn, "generate_exclude_spec", lambda root: _real_spec(FP(str(root)))), (scn, "Live", _Live), (scn, "print", lambda *a, **k: None),
               (scanmod, "Console", lambda *a, **k: con), (rmod, "uuid4", _U.uuid4), (rmod, "datetime", _D)]
    for mod, name, val in patches:
        saved[(mod, name)] = mod.__dict__.get(name, None)
        setattr(mod, name, val)
    out = {"raised": None}
    _Live.last = None
    try:
        try:
            scanmod.scan_command(FP("/w"))
        except BaseException as e:  # noqa - any escape is a failure of the step (typer.Exit included: scan must complete)
            out["raised"] = repr(e)
    finally:
        for (mod, name), val in saved.items():
            if val is None:
                if name in mod.__dict__:
                    del mod.__dict__[name]
            else:
                setattr(mod, name, val)
    out["analysed"] = analysed
    tbl = _Live.last
    out["displayed"] = None
    if tbl is not None and hasattr(tbl, "_stc"):
        st = tbl._stc
        out["displayed"] = {lt.language: (lt.files, lt.loc, lt.functions, lt.hard_to_maintain, lt.unmaintainable) for lt in st.languages_totals()}
    out["written"] = fs.files.get("/w/.codelimit_cache/codelimit.json")
    out["fs"] = fs
    return out


def check_step(tree, cached, same_version, out):
    """Violated clauses of C09 for one step."""
    bad = []
    if out["raised"]:
        return ["scan-raised"]
    present = [p for p in POOL if p in tree]
    if cached is None:
        must = set(present)
    else:
        must = {p for p in present if (not same_version) or p not in cached or cached[p] != tree[p]}
    if sorted(out["analysed"]) != sorted(must):
        bad.append("reused-a-stale-or-foreign-entry" if set(out["analysed"]) < must else "analysed-more-than-needed" if set(out["analysed"]) > must else "wrong-set-analysed")
    if len(out["analysed"]) != len(set(out["analysed"])):
        bad.append("analysed-twice")
    w = out["written"]
    if w is None:
        return bad + ["no-cache-written"]
    try:
        r = ReportReader.from_json(w)
        ver = ReportReader.get_report_version(w)
    except Exception as e:
        return bad + ["written-cache-unreadable-" + type(e).__name__]
    if ver != Report.VERSION:
        bad.append("written-version")
    got = {p: entry_sig(e) for p, e in r.codebase.files.items()}
    exp = {p: entry_sig(A(p, tree[p])) for p in present}
    if got != exp:
        bad.append("report-differs-from-fresh-scan")
    # compare whole codebase section with a from-scratch build (totals, tree, profiles)
    fresh = Codebase("/w")
    for p in [q for q in r.codebase.files.keys()]:
        if p in tree:
            fresh.add_file(A(p, tree[p]))
    fresh.aggregate()
    fr = Report.__new__(Report)
    fr.version, fr.uuid, fr.timestamp, fr.repository, fr.codebase = Report.VERSION, "u", "t", None, fresh
    r.uuid, r.timestamp = "u", "t"
    if json.loads(ReportWriter(fr).to_json())["codebase"] != json.loads(ReportWriter(r).to_json())["codebase"]:
        bad.append("totals-or-tree-differ-from-fresh-scan")
    if json.loads(ReportWriter(fr).to_json())["codebase"] != json.loads(w)["codebase"]:
        bad.append("written-document-codebase-section-differs-from-fresh-scan")
    # what the scan displayed while running (the live overview table) are the totals of THIS codebase
    exp_disp = {k: (t.files, t.loc, t.functions, t.hard_to_maintain, t.unmaintainable) for k, t in fresh.totals.items()}
    if out.get("displayed") is not None and out["displayed"] != exp_disp and present:
        bad.append("displayed-totals-differ-from-the-scanned-codebase")
    fsx = out["fs"]
    if not (fsx.is_file("/w/.codelimit_cache/CACHEDIR.TAG") and fsx.is_file("/w/.codelimit_cache/.gitignore")) and False:
        bad.append("marker-files-missing")
    return bad


def _sel(x, lo, hi):
    """realise a symbolic int in [lo, hi] by explicit branching"""
    for v in range(lo, hi + 1):
        if x == v:
            return v
    return lo


@untraced
def _step(tvals, cvals, has_cache, same_version, alter=0):
    tree = {p: c for p, c in zip(POOL, tvals) if c >= 0}
    cached = {p: c for p, c in zip(POOL, cvals) if c >= 0} if has_cache else None
    text = make_cache_text(cached, same_version, True, alter) if has_cache else None
    if alter and has_cache and cached:
        # an altered (inconsistent) cache is not a cache a scan wrote: nothing of it may be trusted, everything is analysed again
        same_version = False
    out = run_step(tree, text, cache_dir_exists=has_cache)
    bad = check_step(tree, cached, same_version, out)
    if not bad:
        # the same process scans again (second scan of the history): everything is served from the cache just written and the displayed totals are again those of this codebase only
        out2 = run_step(tree, out["written"], cache_dir_exists=True)
        bad = ["second-scan:" + b for b in check_step(tree, dict(tree), True, out2)]
    return bad


def h_step(t0: int, t1: int, t2: int, e0: int, e1: int, e2: int, has_cache: bool, same_version: bool) -> bool:
    """
    pre: all(-1 <= x < NCONT for x in [t0, t1, t2, e0, e1, e2]) and (FIX_T0 is None or t0 == FIX_T0)
    post: _
    """
    return _h_step(t0, t1, t2, e0, e1, e2, has_cache, same_version, 0)


def h_step_altered(t0: int, t1: int, e0: int, e1: int, alter: int) -> bool:
    """
    pre: all(-1 <= x < NCONT for x in [t0, t1, e0, e1]) and 1 <= alter <= 6
    post: _
    """
    return _h_step(t0, t1, -1, e0, e1, -1, True, True, _sel(alter, 1, 6))


def _h_step(t0, t1, t2, e0, e1, e2, has_cache, same_version, alter):
    n = len(POOL)
    tv = [_sel(x, -1, NCONT - 1) for x in [t0, t1, t2][:n]]
    cv = [_sel(x, -1, NCONT - 1) for x in [e0, e1, e2][:n]]
    for x in [t0, t1, t2][n:] + [e0, e1, e2][n:]:
        if x != -1:
            return fin(True, False)
    hc = True if has_cache else False
    sv = True if same_version else False
    bad = _step(tv, cv, hc, sv, alter)
    return fin(bad == [], hc and sv and tv[0] >= 0 and cv[0] == tv[0])


def real_h_step_altered(t0, t1, e0, e1, alter):
    n = len(POOL)
    tv, cv = [t0, t1, -1][:n], [e0, e1, -1][:n]
    bad = _step.__wrapped__(tv, cv, True, True, alter)
    return {"reproduced": bool(bad), "sig": "cache-step:altered-entry:" + "+".join(sorted(set(bad))), "detail": f"tree {dict(zip(POOL, tv))} cache {dict(zip(POOL, cv))} with its first entry altered (variant {alter}): {bad}"}


def real_h_step(t0, t1, t2, e0, e1, e2, has_cache, same_version):
    n = len(POOL)
    tv, cv = [t0, t1, t2][:n], [e0, e1, e2][:n]
    f = _step.__wrapped__ if hasattr(_step, "__wrapped__") else _step
    bad = f(tv, cv, bool(has_cache), bool(same_version))
    return {"reproduced": bool(bad), "sig": "cache-step:" + "+".join(sorted(set(bad))), "detail": f"tree {dict(zip(POOL, tv))} cache {dict(zip(POOL, cv)) if has_cache else None} same_version={same_version}: {bad}"}


# ----------------------------------------------------------------------------------------------- read_report version guard (report / findings)
VERSIONS = [None, "", "0.0.0-other", "VERSION", "VERSION ", "vVERSION"]


@untraced
def _read_report(vi, exists):
    v = VERSIONS[vi]
    if v is not None:
        v = v.replace("VERSION", Report.VERSION)
    text = make_cache_text({POOL[0]: 0}, True)
    d = json.loads(text)
    if v is None:
        del d["version"]
    else:
        d["version"] = v
    files = {"/w/.codelimit_cache/codelimit.json": json.dumps(d)} if exists else {}
    fs = fsstub.FakeFS(files, cwd="/w", dirs={"/w/.codelimit_cache"})
    FP = fsstub.make_path_class(fs)
    con = RecConsole()
    code = None
    rep = None
    try:
        rep = cutils.read_report(FP("/w/.codelimit_cache/codelimit.json"), con)
    except typer.Exit as e:
        code = e.exit_code
    should_refuse = (not exists) or v != Report.VERSION
    if should_refuse:
        return code == 1 and rep is None
    return code is None and rep is not None and rep.version == Report.VERSION


def h_read_report(vi: int, exists: bool) -> bool:
    """
    pre: 0 <= vi < len(VERSIONS)
    post: _
    """
    ok = _read_report(_sel(vi, 0, len(VERSIONS) - 1), True if exists else False)
    return fin(ok, exists and vi == 3)


# ----------------------------------------------------------------------------------------------- C10: damaged / partial cache
BASE_TREE = {POOL[0]: 0, POOL[-1]: 1}
BASE_CACHED = [{POOL[0]: 0, POOL[-1]: 1}, {POOL[0]: 1}, {}]     # fully current, stale+missing, empty report
NONJSON = ["", " ", "{", "[]", "null", "0", "\"x\"", "{}", "{\"version\": 1}", "not json", "\x00", "{\"codebase\": {\"files\": []}}",
           b"\xff\xfe\x00binary", b"{\"version\": \"\xe9\"}", "{\"uuid\": " + "9" * 5000 + "}", "[" * 40 + "]" * 40, "{\"version\": 1e999}"]


def _doc(ci, pretty=True):
    return make_cache_text(BASE_CACHED[ci], True, pretty)


def _json_paths(v, prefix=()):
    out = [prefix] if prefix else []
    if isinstance(v, dict):
        for k in v:
            out += _json_paths(v[k], prefix + (k,))
    elif isinstance(v, list):
        for i in range(len(v)):
            out += _json_paths(v[i], prefix + (i,))
    return out


def _mutate_json(d, path, how):
    """delete the key/element at path, or replace its value by a value of another JSON type"""
    cur = d
    for k in path[:-1]:
        cur = cur[k]
    last = path[-1]
    if how == 0:
        if isinstance(cur, list):
            cur.pop(last)
        else:
            del cur[last]
    else:
        old = cur[last]
        repl = [None, 7, "s", [], {}, True, 1.5]
        new = repl[(how - 1) % len(repl)]
        if type(new) is type(old):
            new = None
        cur[last] = new
    return d


def check_damaged(out):
    """C10 oracle: the scan completed, produced exactly the fresh-scan report and left a complete valid cache (with marker files) behind."""
    bad = []
    if out["raised"]:
        return ["scan-raised:" + out["raised"].split("(")[0]]
    w = out["written"]
    if w is None:
        return ["no-cache-written"]
    try:
        r = ReportReader.from_json(w)
    except Exception as e:
        return ["written-cache-unreadable-" + type(e).__name__]
    got = {p: entry_sig(e) for p, e in r.codebase.files.items()}
    exp = {p: entry_sig(A(p, c)) for p, c in BASE_TREE.items()}
    if got != exp:
        bad.append("report-differs-from-fresh-scan")
    if ReportReader.get_report_version(w) != Report.VERSION:
        bad.append("written-version")
    fresh = Codebase("/w")
    for p_ in r.codebase.files.keys():
        if p_ in BASE_TREE:
            fresh.add_file(A(p_, BASE_TREE[p_]))
    fresh.aggregate()
    fr = Report.__new__(Report)
    fr.version, fr.uuid, fr.timestamp, fr.repository, fr.codebase = Report.VERSION, "u", "t", None, fresh
    doc = json.loads(w)
    if doc.get("codebase") != json.loads(ReportWriter(fr).to_json())["codebase"]:
        bad.append("cache-left-behind-differs-from-a-fresh-scan-document(codebase section)")
    if not all(isinstance(doc.get(k), str) and doc.get(k) for k in ("version", "uuid", "timestamp", "root")):
        bad.append("cache-left-behind-incomplete(top-level keys)")
    fsx = out["fs"]
    if not (fsx.is_file("/w/.codelimit_cache/CACHEDIR.TAG") and fsx.is_file("/w/.codelimit_cache/.gitignore")):
        bad.append("cache-directory-incomplete(marker-files)")
    # a second scan on what was left behind must succeed and reuse everything
    return bad


@untraced
def _damaged(kind, a, b, c):
    if kind == "truncate":
        doc = _doc(a, pretty=bool(c))
        text = doc[:b]
        out = run_step(dict(BASE_TREE), text)
    elif kind == "nonjson":
        out = run_step(dict(BASE_TREE), NONJSON[a])
    elif kind == "structure":
        d = json.loads(_doc(a))
        paths = _json_paths(d)
        text = json.dumps(_mutate_json(d, paths[b], c))
        out = run_step(dict(BASE_TREE), text)
    elif kind == "dir":
        # a: directory exists?  b: marker files exist?  c: cache file exists?
        out = run_step(dict(BASE_TREE), _doc(0) if c else None, cache_dir_exists=bool(a), marker_files=bool(b))
    else:
        raise ValueError(kind)
    bad = check_damaged(out)
    if not bad:
        # no state left behind may break the NEXT scan: run it on the resulting file system state
        fs1 = out["fs"]
        nxt = run_step(dict(BASE_TREE), fs1.files.get("/w/.codelimit_cache/codelimit.json"), cache_dir_exists=True,
                       marker_files=fs1.is_file("/w/.codelimit_cache/CACHEDIR.TAG"))
        bad = ["next-scan:" + x for x in check_damaged(nxt)]
        if not bad and nxt["analysed"]:
            bad = ["next-scan:did-not-reuse-the-fresh-cache"]
    return bad


KIND = param("kind", "truncate")
NDOC = [len(make_cache_text(c, True)) for c in BASE_CACHED]
NPATHS = [len(_json_paths(json.loads(make_cache_text(c, True)))) for c in BASE_CACHED]
DOC = param("doc", None)
LO = param("lo", 0)
HI = param("hi", None)


def _pre_damaged(a, b, c):
    if KIND == "truncate":
        hi = NDOC[a] if 0 <= a < len(BASE_CACHED) else 0
        return 0 <= a < len(BASE_CACHED) and (DOC is None or a == DOC) and LO <= b <= min(hi, HI if HI is not None else hi) and 0 <= c <= 1
    if KIND == "nonjson":
        return 0 <= a < len(NONJSON) and b == 0 and c == 0
    if KIND == "structure":
        return 0 <= a < len(BASE_CACHED) - 1 and 0 <= b < NPATHS[a] and 0 <= c <= 7
    if KIND == "dir":
        return 0 <= a <= 1 and 0 <= b <= 1 and 0 <= c <= 1 and (a == 1 or (b == 0 and c == 0))
    return False


def h_damaged(a: int, b: int, c: int) -> bool:
    """
    pre: _pre_damaged(a, b, c)
    post: _
    """
    aa = _sel(a, 0, 12)
    bb = _sel(b, 0, max(NDOC + NPATHS))
    cc = _sel(c, 0, 7)
    bad = _damaged(KIND, aa, bb, cc)
    return fin(bad == [], True)


def real_h_damaged(a, b, c):
    f = _damaged.__wrapped__ if hasattr(_damaged, "__wrapped__") else _damaged
    bad = f(KIND, a, b, c)
    what = {"truncate": f"cache document #{a} ({'pretty' if c else 'compact'}) truncated to {b} of {NDOC[a] if a < len(NDOC) else '?'} characters", "nonjson": f"cache text {NONJSON[a]!r}" if a < len(NONJSON) else "",
            "structure": f"cache document #{a}: JSON path #{b} " + ("deleted" if c == 0 else f"replaced by another type (variant {c})"), "dir": f"cache dir exists={a} marker files={b} cache file={c}"}[KIND]
    return {"reproduced": bool(bad), "sig": f"damaged-cache:{KIND}:" + "+".join(sorted(set(bad))), "detail": f"{what}: {bad}"}


def _sizes():
    return {"ndoc": NDOC, "npaths": NPATHS}


# ----------------------------------------------------------------------------------------------- A-md5 is an assumption about md5, not about calculate_checksum: the real function must hash the WHOLE file
SIZES = [0, 1, 4095, 4096, 8192, 65535, 65536, 65537, 131072, 200001]
DELTAS = [0, 1, 2, 4095, 4096, 8191, 8192, 65535, 65536, 65537, 131071, 131072, 200000]      # offset of the one byte that differs between the two versions of the file


@untraced
def _checksum_case(si, di):
    """two files of SIZES[si] bytes that differ in exactly one byte at offset DELTAS[di] (if it lies inside): the real calculate_checksum of each must be the md5 of all
    of its bytes - so the two checksums differ. The file is served by an in-memory binary stream, whichever way the function reads it (read(), read(n), iteration, readinto)."""
    import hashlib
    import io
    import codelimit.common.utils as cu
    n, off = SIZES[si], DELTAS[di]
    base = bytes((i * 31 + (i >> 8)) % 251 for i in range(n))
    other = bytearray(base)
    if off < n:
        other[off] ^= 0x55
    other = bytes(other)
    files = {"/w/one.py": base, "/w/two.py": other}
    saved = cu.__dict__.get("open")
    cu.open = lambda p, mode="r", *a, **k: io.BytesIO(files[str(p)])
    bad = []
    try:
        c1, c2 = cu.calculate_checksum("/w/one.py"), cu.calculate_checksum("/w/two.py")
    finally:
        if saved is None:
            del cu.open
        else:
            cu.open = saved
    if c1 != hashlib.md5(base).hexdigest() or c2 != hashlib.md5(other).hexdigest():
        bad.append("checksum-is-not-the-md5-of-the-whole-file")
    if (c1 == c2) != (base == other):
        bad.append("changed-content-same-checksum")
    return bad


def h_checksum(si: int, di: int) -> bool:
    """
    pre: 0 <= si < len(SIZES) and 0 <= di < len(DELTAS)
    post: _
    """
    bad = _checksum_case(_sel(si, 0, len(SIZES) - 1), _sel(di, 0, len(DELTAS) - 1))
    return fin(bad == [], si >= 5 and di >= 5)


def real_h_checksum(si, di):
    """replay on a real temporary file, nothing stubbed"""
    import hashlib
    import os
    import tempfile
    from codelimit.common.utils import calculate_checksum
    n, off = SIZES[si], DELTAS[di]
    data = bytearray(bytes((i * 31 + (i >> 8)) % 251 for i in range(n)))
    if off < n:
        data[off] ^= 0x55
    d = tempfile.mkdtemp(prefix="verif-c09-")
    try:
        p = os.path.join(d, "two.py")
        with open(p, "wb") as f:
            f.write(bytes(data))
        got = calculate_checksum(p)
    finally:
        import shutil
        shutil.rmtree(d, ignore_errors=True)
    want = hashlib.md5(bytes(data)).hexdigest()
    return {"reproduced": got != want, "sig": "checksum:not-the-md5-of-the-whole-file", "detail": f"file of {n} bytes: calculate_checksum -> {got}, md5 of its bytes {want}"}
