"""C05 (unit parts). Real code: scope_utils._build_scopes_from_headers_and_blocks / _find_scope_blocks_indices / _get_nearest_block / fold_scopes /
filter_scopes_nested_functions / unfold_scopes / _scope_tokens, Scanner._analyze_file. Headers and blocks are SYMBOLIC integer ranges constrained only
by what upstream guarantees (headers ordered and disjoint - find_all; blocks properly nested or disjoint - balanced symbols / indentation runs)."""
import codelimit.common.Scanner as scn
from codelimit.common.Location import Location
from codelimit.common.Measurement import Measurement
from codelimit.common.Token import Token
from codelimit.common.TokenRange import TokenRange
from codelimit.common.scope import scope_utils as su
from codelimit.common.scope.Header import Header
from pygments.token import Token as PT
from vlib.hx import fin, param

NTOK = param("ntok", 1000000)
class Toks:
    """Duck-typed token list: token i sits on line i // 3 + 1 at column i % 3 + 1 (three tokens per line; source order == index order)
    for ANY index, so symbolic indices need no case split and headers may share a line."""
    def __getitem__(self, i):
        return Token(Location(i // 3 + 1, i % 3 + 1), PT.Name, "t")

    def __len__(self):
        return NTOK


TOKENS = Toks()
OWN = param("own", False)      # also check _scope_tokens (iterates over index ranges: one path per range length)
NEST = param("nest", True)
NH = param("nh", 2)
NB = param("nb", 3)
SHAPE = param("shape", None)   # nesting shape of the three blocks (splits the query): 0 all disjoint, 1 b1 in b0, 2 b2 in b1 in b0, 3 b1,b2 in b0, 4 b2 in b1 (b0 apart)


def _pre(hs, bs):
    prev_end = 0
    for (a, b) in hs:                      # headers: non-empty, ordered, disjoint
        if not (prev_end <= a and a < b and b <= NTOK):
            return False
        prev_end = b
    for (a, b) in bs:                      # blocks: at least an opener and a closer
        if not (0 <= a and a + 2 <= b and b <= NTOK):
            return False
    for i in range(len(bs)):               # sorted by start (distinct openers), properly nested or disjoint
        for j in range(i + 1, len(bs)):
            (a, b), (c, d) = bs[i], bs[j]
            if not (a < c):
                return False
            if not (d < b or b <= c):      # inside (closer strictly before the outer closer) or after
                return False
    if SHAPE is not None and len(bs) == 3:
        (a0, e0), (a1, e1), (a2, e2) = bs
        shape = (0 if e0 <= a1 and e1 <= a2 else 1 if e1 < e0 and e0 <= a2 else 2 if e2 < e1 and e1 < e0 else 3 if e1 <= a2 and e2 < e0 else 4 if e0 <= a1 and e2 < e1 else 5)
        if shape != SHAPE:
            return False
    for (a, b) in hs:                      # a header never straddles a block boundary: it lies inside or outside every block
        for (c, d) in bs:
            if not (b <= c or d <= a or (c < a and b < d) or (a < c and d <= b)):   # after / before / header strictly inside the block / block inside the header (never at its first token)
                return False
    return True


def _unused(rs):
    return all(a == 0 and b == 0 for (a, b) in rs)


def h_scopes(h0a: int, h0b: int, h1a: int, h1b: int, b0a: int, b0b: int, b1a: int, b1b: int, b2a: int, b2b: int) -> bool:
    """
    pre: _pre([(h0a, h0b), (h1a, h1b)][:NH], [(b0a, b0b), (b1a, b1b), (b2a, b2b)][:NB]) and _unused([(h0a, h0b), (h1a, h1b)][NH:] + [(b0a, b0b), (b1a, b1b), (b2a, b2b)][NB:])
    post: _
    """
    hs = [Header(TOKENS[a], TokenRange(a, b)) for (a, b) in [(h0a, h0b), (h1a, h1b)][:NH]]
    bs = [TokenRange(a, b) for (a, b) in [(b0a, b0b), (b1a, b1b), (b2a, b2b)][:NB]]
    scopes = su._build_scopes_from_headers_and_blocks(hs, bs, TOKENS)
    ok = True
    prev = None
    for s in scopes:
        ok = ok and s.header.token_range.start < s.block.end           # a span is never empty or inverted
        ok = ok and any(s.block.start == a for (a, b) in [(b0a, b0b), (b1a, b1b), (b2a, b2b)][:NB])
        ok = ok and any(s.block.end == b for (a, b) in [(b0a, b0b), (b1a, b1b), (b2a, b2b)][:NB])
        if prev is not None:
            ok = ok and prev.header.token_range.start < s.header.token_range.start      # source order, distinct starts
        prev = s
    # folding / unfolding keeps every scope exactly once, in source order; own tokens lie inside the span and outside nested spans
    out = su.unfold_scopes(su.fold_scopes(scopes)) if NEST else su.filter_scopes_nested_functions(scopes)
    if NEST:
        ok = ok and [id(s) for s in out] == [id(s) for s in scopes]
    for s in (out if OWN else []):
        own = su._scope_tokens(s, TOKENS)
        ok = ok and len(own) >= 1
        for t in own:
            idx = (t.location.line - 1) * 3 + (t.location.column - 1)
            ok = ok and s.header.token_range.start <= idx < s.block.end
            for c in s.children:
                ok = ok and not (c.header.token_range.start <= idx < c.block.end)
        n_own = (s.block.end - s.header.token_range.start) - sum(c.block.end - c.header.token_range.start for c in s.children)
        ok = ok and len(own) == n_own
    return fin(ok, len(scopes) == min(NH, NB))


class _Lexer:
    name = "Python"


_Lexer.__name__ = "PythonLexer"


def h_loc(n: int, a: int, b: int, c: int) -> bool:
    """
    pre: 0 <= n <= 3 and a >= 1 and b >= 1 and c >= 1
    post: _
    """
    ms = [Measurement(f"f{i}", Location(1 + i, 1), Location(2 + i, 2), v) for i, v in enumerate([a, b, c][:n])]
    saved = (scn._read_file, scn.lex, scn.scan_file)
    scn._read_file = lambda p: ""
    scn.lex = lambda lexer, code, fc=True: []
    scn.scan_file = lambda tokens, language: list(ms)
    try:
        e = scn._analyze_file("/w/a.py", "a.py", "k", _Lexer())
    finally:
        scn._read_file, scn.lex, scn.scan_file = saved
    ok = e.loc == sum([a, b, c][:n]) and e.measurements() == ms and e.path == "a.py" and e.checksum() == "k" and e.language == "Python"
    return fin(ok, n == 3)
