"""Layout-symbolic skeleton harnesses (C01, C04, C17 part 2): the REAL scan_file runs on the real lexer's tokens of a canonical program whose
line gaps, indentation columns (and, per mode, inserted comment tokens / the marker comment's line) are solver variables.

param: {"lang", "tier", "label", "mode": layout | comments | nocl}
Oracle: generator-side ground truth (vlib.skel): names, order, start = header's first token, end = just past the body's last token,
length = number of distinct canonical lines holding the function's own code tokens (gaps only add lines, so it is a constant of the skeleton).
"""
from pygments.token import Token as PT

from codelimit.common.Location import Location
from codelimit.common.Scanner import scan_file
from codelimit.common.Token import Token
from vlib import capture, skel
from vlib.hx import fin, param, untraced

LANG = param("lang", "C")
TIER = param("tier", "quick")
LABEL = param("label", None)
MODE = param("mode", "layout")
NG = 10          # gap variables
NC = 5           # indentation levels

CORPUS = bool(LABEL) and LABEL.startswith("corpus:")
BSEL = param("bsel", 0)        # corpus files: which residue class of the token-safe lines carries the symbolic gaps
if CORPUS:
    _items = None
    SK = skel.Skeleton(LANG, None, LABEL, text=dict(skel.corpus_files(LANG))[LABEL])
elif LABEL == "x-bom-two":      # the canonical program `two` behind a byte-order mark (what reading a UTF-8-with-BOM file yields): positions must still be those of the text
    _items = None
    SK = skel.Skeleton(LANG, None, LABEL, text="\ufeff" + skel.Skeleton(LANG, dict(skel.programs(LANG, TIER))["two"], "two").text)
else:
    _items = (skel.extra_programs(LANG)[LABEL] if LABEL.startswith("x-") else dict(skel.programs(LANG, TIER))[LABEL]) if LABEL else None
    SK = skel.Skeleton(LANG, _items, LABEL, comments=("col1" if LABEL.startswith("cmt1-") else "hostile" if LABEL.startswith("cmtx-") else LABEL.startswith("cmt-"))) if LABEL else None
LANGUAGE = capture.language(LANG)
FAM = skel.LANGS[LANG]["fam"]

# ---- token start lines, chosen gap boundaries, indentation levels
if SK:
    TOK_LINES = sorted({t.location.line for t in SK.all_tokens})
    if len(TOK_LINES) <= NG:
        BOUNDS = list(TOK_LINES)
    else:
        pick = set(TOK_LINES[:4]) | set(TOK_LINES[-3:])
        rest = [l for l in TOK_LINES if l not in pick]
        step = max(1, len(rest) // (NG - len(pick)))
        for l in rest[::step]:
            if len(pick) < NG:
                pick.add(l)
        BOUNDS = sorted(pick)
    FIRST_COL = {}
    for t in SK.all_tokens:
        FIRST_COL.setdefault(t.location.line, t.location.column)
    LEVEL = {ln: (c - 1) // 2 for ln, c in FIRST_COL.items()}
    EXTRA = {ln: (c - 1) % 2 for ln, c in FIRST_COL.items()}
    NLEVELS = max(LEVEL.values()) + 1
    MAXLINE = max(TOK_LINES)
    LAST_TOK_OF_LINE = {}
    for t in SK.all_tokens:
        LAST_TOK_OF_LINE[t.location.line] = t
    LINE_COMMENT = "# c" if FAM == "py" else "// c"
    LINE_COMMENT_T = PT.Comment.Single
    BLOCK_COMMENT = None if FAM == "py" else "/* c */"
    NOCL_TEXT = "# NoCL reason" if FAM == "py" else "// nocl"
SAFE_TRAIL = None     # None: every line (generated programs); corpus files: the lines after which a trailing comment was validated with the real lexer
if SK and CORPUS:
    from pygments.lexers import get_lexer_by_name as _glbn
    from pygments.token import Comment as _Comment
    _lexer = _glbn(skel.LANGS[LANG]["lexer"])

    def _code_of(text):
        return [(str(ty), v) for _o, ty, v in _lexer.get_tokens_unprocessed(text) if v.strip() != "" and ty not in _Comment]

    def _comments_of(text):
        return [v for _o, ty, v in _lexer.get_tokens_unprocessed(text) if ty in _Comment]
    _lines = SK.text.split("\n")
    _code0, _cm0 = _code_of(SK.text), _comments_of(SK.text)

    def _safe(j, what):
        """token-safe insertion point, decided by the real lexer on the concretely modified text: the code tokens stay the same and the inserted comment is one more comment"""
        ls = list(_lines)
        if what == "gap":
            ls.insert(j - 1, "")
        elif what == "line":
            ls.insert(j - 1, "   " + LINE_COMMENT)
        else:
            ls[j - 1] = ls[j - 1] + " " + what
        t = "\n".join(ls)
        if _code_of(t) != _code0:
            return False
        return what == "gap" or len(_comments_of(t)) == len(_cm0) + 1
    _trail = lambda j: (BLOCK_COMMENT if (BLOCK_COMMENT and j % 2 == 0) else LINE_COMMENT)
    _cand = [j for j in TOK_LINES if _safe(j, "gap") and (MODE != "comments" or _safe(j, "line"))]
    SAFE_TRAIL = {j for j in TOK_LINES if _safe(j, _trail(j))} if MODE == "comments" else set()
    _step = max(1, -(-len(_cand) // NG))
    BOUNDS = _cand[BSEL % _step::_step][:NG]
    N_SAFE, N_STEP = len(_cand), _step
WS_LINES = ["\x0c", " \t ", "\x0b"]       # whitespace-only lines: form feed (page break), blank + tab, vertical tab
WS_LEAD = ["   ", "\x0c  ", "\t  "]        # whitespace token in front of a comment-only line (3 characters each)


def _wsline(k):
    """comments mode: every second chosen boundary also gets a whitespace-only line (so its gap is >= 2)."""
    return k % 2 == 1


def _pre(gs, cs):
    for k, g in enumerate(gs):
        if g < 0 or (k >= len(BOUNDS) and g != 0):
            return False
        if MODE == "comments" and k < len(BOUNDS) and g < (2 if _wsline(k) else 1):
            return False
    prev = 0
    for k, c in enumerate(cs):
        if k < NLEVELS:
            if c <= prev or (CORPUS and c != 1 + 2 * k):     # real-world files keep their indentation (C04 is about lines, comments and blanks)
                return False
            prev = c
        elif c != 0:
            return False
    return True


def _newline(gs):
    """canonical line -> symbolic line: every chosen boundary line j adds its gap to line j and everything below."""
    shift = {}
    acc = 0
    bi = 0
    for ln in range(1, MAXLINE + 1):
        if bi < len(BOUNDS) and BOUNDS[bi] == ln:
            acc = acc + gs[bi]
            bi += 1
        shift[ln] = ln + acc
    return shift

def _col(t, cs):
    ln = t.location.line
    if ln not in LEVEL or LEVEL[ln] >= NC:
        return t.location.column
    return cs[LEVEL[ln]] + EXTRA[ln] + (t.location.column - FIRST_COL[ln])


def _tokens(gs, cs, extra_comments=False, nocl_line=None):
    nl = _newline(gs)
    out = []
    for t in SK.all_tokens:
        ln = t.location.line
        if extra_comments and ln in BOUNDS and FIRST_COL[ln] == t.location.column:
            # a comment-only line right above this line (inside its gap, which is >= 1), preceded by an indentation whitespace token
            k = BOUNDS.index(ln)
            if _wsline(k):
                out.append(Token(Location(nl[ln] - 2, 1), PT.Text.Whitespace, WS_LINES[k % len(WS_LINES)]))
            out.append(Token(Location(nl[ln] - 1, 1), PT.Text.Whitespace, WS_LEAD[k % len(WS_LEAD)]))
            out.append(Token(Location(nl[ln] - 1, 4), LINE_COMMENT_T, LINE_COMMENT))
        out.append(Token(Location(nl[ln], _col(t, cs)), t.token_type, t.value))
        if extra_comments and LAST_TOK_OF_LINE[ln] is t and "\n" not in t.value and not t.value.endswith("\\") and (SAFE_TRAIL is None or ln in SAFE_TRAIL):
            endc = _col(t, cs) + len(t.value)
            out.append(Token(Location(nl[ln], endc), PT.Text.Whitespace, " "))
            if BLOCK_COMMENT and (ln % 2 == 0):
                out.append(Token(Location(nl[ln], endc + 1), PT.Comment.Multiline, BLOCK_COMMENT))
            else:
                out.append(Token(Location(nl[ln], endc + 1), LINE_COMMENT_T, LINE_COMMENT))
    if nocl_line is not None:
        out.append(Token(Location(nocl_line, 200), LINE_COMMENT_T, NOCL_TEXT))
    return out, nl


def _expected(nl, cs, skip=()):
    exp = []
    for i in SK.reportable():
        if i in skip:
            continue
        t = SK.truth[i]
        hs, be = SK.code[t["hs"]], SK.code[t["be"]]
        exp.append((t["name"], nl[hs.location.line], _col(hs, cs), nl[be.location.line], _col(be, cs) + len(be.value), t["length"]))
    return exp


# ---- metamorphic baseline (C04, C17): what the real scan_file reports on the canonical stream, expressed through tokens so it can be re-laid-out
BASE = None
if SK and MODE in ("comments", "nocl", "gaps-vs-base"):
    try:
        _ms = untraced(scan_file)(list(SK.all_tokens), LANGUAGE)
        BASE = []
        for m in _ms:
            st = [t for t in SK.code if t.location.line == m.start.line and t.location.column == m.start.column]
            en = [t for t in SK.code if t.location.line == m.end.line and t.location.column + len(t.value) == m.end.column]
            nmtok = [t for t in SK.code if t.value == m.unit_name and t.is_name()]
            if len(st) != 1 or len(en) != 1 or not nmtok:
                raise RuntimeError(f"baseline measurement {m} does not start/end at a code token")
            # the name token of the reported function: the first name token with that text at or after the start
            nm = [t for t in nmtok if not t.location.lt(st[0].location)][0]
            BASE.append((m.unit_name, st[0], en[0], m.value, nm))
    except Exception as e:   # the canonical program itself crashes the analysis: C03's business, not a metamorphic verdict
        BASE = repr(e)


def _related(a, b):
    """is function a an ancestor or a descendant of function b (by the generator's nesting)?"""
    names = [t["name"] for t in SK.truth]
    if a not in names or b not in names:
        return False
    ia, ib = names.index(a), names.index(b)

    def anc(i, j):
        p = SK.truth[j]["parent"]
        while p is not None:
            if p == i:
                return True
            p = SK.truth[p]["parent"]
        return False
    return anc(ia, ib) or anc(ib, ia)


def _expected_from_base(nl, cs, ell=None):
    """-> list of (name, start line, start col, end line, end col, value); for functions nested in / enclosing an omitted function only the name is
    prescribed (the statement leaves their span and length open), marked by value None."""
    omitted = [name for (name, st, en, val, nm) in BASE if ell is not None and nl[nm.location.line] == ell]
    exp = []
    for (name, st, en, val, nm) in BASE:
        if name in omitted:
            continue
        if any(_related(name, o) for o in omitted):
            exp.append((name, None, None, None, None, None))
        else:
            exp.append((name, nl[st.location.line], _col(st, cs), nl[en.location.line], _col(en, cs) + len(en.value), val))
    return exp


def _same(ms, exp):
    if len(ms) != len(exp):
        return False
    ok = True
    for m, e in zip(ms, exp):
        if e[5] is None:
            ok = ok and m.unit_name == e[0]
        else:
            ok = ok and m.unit_name == e[0] and m.start.line == e[1] and m.start.column == e[2] and m.end.line == e[3] and m.end.column == e[4] and m.value == e[5]
    return ok


def h_layout(g0: int, g1: int, g2: int, g3: int, g4: int, g5: int, g6: int, g7: int, g8: int, g9: int, c0: int, c1: int, c2: int, c3: int, c4: int) -> bool:
    """
    pre: _pre([g0, g1, g2, g3, g4, g5, g6, g7, g8, g9], [c0, c1, c2, c3, c4])
    post: _
    """
    gs, cs = [g0, g1, g2, g3, g4, g5, g6, g7, g8, g9], [c0, c1, c2, c3, c4]
    if SK.lex_mismatch:        # the real lex() places a token of the canonical text elsewhere than the oracle does: nothing below would be meaningful
        return False
    toks, nl = _tokens(gs, cs, extra_comments=(MODE == "comments"))
    ms = scan_file(toks, LANGUAGE)
    exp = _expected(nl, cs) if MODE == "layout" else _expected_from_base(nl, cs)
    return fin(_same(ms, exp), len(ms) >= 1)


def h_nocl(ell: int, g0: int, g1: int, g2: int, g3: int, g4: int, g5: int, g6: int, g7: int, g8: int, g9: int) -> bool:
    """
    pre: ell >= 1 and _pre([g0, g1, g2, g3, g4, g5, g6, g7, g8, g9], DEFAULT_COLS)
    post: _
    """
    gs = [g0, g1, g2, g3, g4, g5, g6, g7, g8, g9]
    cs = DEFAULT_COLS
    if SK.lex_mismatch:        # the marker is matched by LINE: if the real lex() places a token of this text elsewhere than the text does, markers hit the wrong function
        return False
    toks, nl = _tokens(gs, cs, nocl_line=ell)
    ms = scan_file(toks, LANGUAGE)
    exp = _expected_from_base(nl, cs, ell)
    return fin(_same(ms, exp), len(exp) == len(BASE) - 1)


DEFAULT_COLS = [1 + 2 * k if SK and k < NLEVELS else 0 for k in range(NC)]


# ----------------------------------------------------------------------------------------------- replay through the real lexer
def _render(gs, cs, extra_comments=False, nocl_line=None):
    gaps = {BOUNDS[k]: gs[k] for k in range(len(BOUNDS))}
    lines = SK.text.split("\n")
    out = []
    for j, ln in enumerate(lines, start=1):
        g = int(gaps.get(j, 0))
        if extra_comments and j in BOUNDS:
            k = BOUNDS.index(j)
            if _wsline(k):
                out.extend([""] * (g - 2))
                out.append(WS_LINES[k % len(WS_LINES)])
            else:
                out.extend([""] * (g - 1))
            out.append(WS_LEAD[k % len(WS_LEAD)] + LINE_COMMENT)
        else:
            out.extend([""] * g)
        stripped = ln.lstrip(" ")
        if stripped == "" or j not in LEVEL:
            out.append(ln)
            continue
        body = ln if CORPUS else (" " * (cs[LEVEL[j]] + EXTRA[j] - 1) + stripped if LEVEL[j] < NC else ln)
        if extra_comments and "\n" not in LAST_TOK_OF_LINE[j].value and not LAST_TOK_OF_LINE[j].value.endswith("\\") and (SAFE_TRAIL is None or j in SAFE_TRAIL):
            body += " " + (BLOCK_COMMENT if (BLOCK_COMMENT and j % 2 == 0) else LINE_COMMENT)
        out.append(body)
    if nocl_line is not None:
        while len(out) < nocl_line:
            out.append("")
        out[nocl_line - 1] = out[nocl_line - 1] + " " * max(1, 199 - len(out[nocl_line - 1])) + NOCL_TEXT
    return "\n".join(out)


def _real(gs, cs, extra_comments=False, nocl_line=None):
    from pygments.lexers import get_lexer_by_name
    from codelimit.common.lexer_utils import lex
    if SK.lex_mismatch:
        return {"reproduced": True, "sig": f"lex-positions:{LANG}", "detail": f"[{LABEL}] real lex() and the oracle disagree on a token position of the canonical text: {SK.lex_mismatch} in {SK.text[:300]!r}"}
    text = _render(gs, cs, extra_comments, nocl_line)
    toks = lex(get_lexer_by_name(skel.LANGS[LANG]["lexer"]), text, False)
    try:
        ms = scan_file(toks, LANGUAGE)
        got = [(m.unit_name, m.start.line, m.start.column, m.end.line, m.end.column, m.value) for m in ms]
    except Exception as e:
        got = repr(e)
    nl = _newline(gs)
    exp = _expected(nl, cs) if MODE == "layout" else _expected_from_base(nl, cs, nocl_line)
    if isinstance(got, list) and len(got) == len(exp):
        got = [g if e[5] is not None else (g[0], None, None, None, None, None) for g, e in zip(got, exp)]
    kinds = []
    culprit = None
    if got != exp:
        if not isinstance(got, list):
            kinds = ["exception"]
        elif [g[0] for g in got] != [e[0] for e in exp]:
            kinds = ["functions-found"]
            gn, en = [g[0] for g in got], [e[0] for e in exp]
            culprit = next((n for n in en if n not in gn), None) or next((n for n in gn if n not in en), None)
        else:
            for g, e in zip(got, exp):
                for k, nm in ((1, "start"), (2, "start"), (3, "end"), (4, "end"), (5, "length")):
                    if g[k] != e[k]:
                        culprit = culprit or g[0]
                        if nm not in kinds:
                            kinds.append(nm)
    feats = []
    reg = next((r for r in SK.regions if r.name == culprit), None)
    if reg is not None:
        depth = 0
        q = reg
        while q.parent is not None:
            depth += 1
            q = q.parent
        feats = [f"kind={reg.kind}", f"params={reg.params}", f"brace={reg.brace}", f"depth={depth}", f"children={len(reg.children)}"]
        ti = SK.regions.index(reg)
        if any(SK.truth[SK.regions.index(c)]["be"] == SK.truth[ti]["be"] for c in reg.children):
            feats.append("last-child-ends-the-body")
    return {"reproduced": got != exp, "sig": f"{MODE}:{LANG}:{'+'.join(sorted(kinds))}:{','.join(feats)}", "detail": f"[{LABEL}] got {got} expected {exp} on text {text[:400]!r}"}


def real_h_layout(g0, g1, g2, g3, g4, g5, g6, g7, g8, g9, c0, c1, c2, c3, c4):
    return _real([g0, g1, g2, g3, g4, g5, g6, g7, g8, g9], [c0, c1, c2, c3, c4], extra_comments=(MODE == "comments"))


def real_h_nocl(ell, g0, g1, g2, g3, g4, g5, g6, g7, g8, g9):
    return _real([g0, g1, g2, g3, g4, g5, g6, g7, g8, g9], DEFAULT_COLS, nocl_line=ell)
