"""C14 (b) — find_all on the BUILT-IN header shapes over symbolic token sequences.

The header expression each language really passes to the matcher is captured (vlib.capture) and interpreted STRUCTURALLY by an independent reference:
a linear shape of optional / required single-token elements and one 'balanced run' (one or more tokens accepted by a parenthesis counter), with the
element tests re-implemented here from the predicate's kind and literal (Pygments type family + value) - the repo's accept() methods are not used by the oracle.
Expressions with any other structure are reported as unmodelled (inconclusive), never judged.

param: {"lang", "pair", "N", "first"}.  Tokens: class indices into the language's alphabet (solver variables); positions are irrelevant to find_all.
Oracle (the statement's clauses): bounds, recorded items, each match = the reference greedy run from its start, order / disjointness, coverage of every
position from which the greedy run succeeds, and 'ends before the end of input only at nesting depth 0'. The matcher's ambiguity error is C15's subject:
a sequence on which the reference meets two applicable elements must raise ValueError and is otherwise skipped.
"""
import importlib.util
import os
import sys

from pygments.token import Keyword as KW, Name as NM, Operator as OP, Punctuation as PU

import codelimit.common.gsm.matcher as matcher
from codelimit.common.Location import Location
from codelimit.common.Token import Token
from vlib import capture
from vlib.hx import fin, param, untraced

_here = os.path.dirname(os.path.abspath(__file__))
_spec = importlib.util.spec_from_file_location("vh_soup_for_c14b", os.path.join(_here, "soup.py"))
soup = importlib.util.module_from_spec(_spec)
sys.modules["vh_soup_for_c14b"] = soup
_spec.loader.exec_module(soup)

LANG = param("lang", "C")
PAIR = param("pair", 0)
N = param("N", 3)
FIRST = param("first", None)
TOLERATE = param("tolerate", [])
PREFIX = param("prefix", [])       # fixed leading words; the N symbolic tokens follow them
ALPHA = soup.ALPHA
EXPR = capture.capture(LANG)[PAIR][0]
matcher.expression_to_nfa = untraced(matcher.expression_to_nfa)
matcher.nfa_to_dfa = untraced(matcher.nfa_to_dfa)


class Unmodelled(Exception):
    pass


def _test_of(pred):
    """Own re-implementation of a single-token predicate from its kind and literal."""
    n = type(pred).__name__
    if n == "Name":
        return lambda t: t.token_type in NM
    if n == "Keyword":
        k = pred.keyword
        return lambda t: t.token_type in KW and t.value == k
    if n == "Symbol":
        k = pred.symbol
        return lambda t: t.token_type in PU and t.value == k
    if n == "Operator" and hasattr(pred, "symbol"):
        k = pred.symbol
        return lambda t: t.token_type in OP and t.value == k
    if n == "TokenValue":
        k = pred.value
        return lambda t: t.value == k
    raise Unmodelled("predicate " + n)


def shape_of(expr):
    items = expr if isinstance(expr, list) else [expr]
    out = []
    for it in items:
        n = type(it).__name__
        if n == "Optional":
            inner = it.expression
            if len(inner) != 1:
                raise Unmodelled("Optional of a sequence")
            out.append(("opt", _test_of(inner[0])))
        elif n == "OneOrMore":
            inner = it.expression
            if len(inner) != 1 or type(inner[0]).__name__ != "Balanced":
                raise Unmodelled("OneOrMore of " + type(inner[0]).__name__)
            out.append(("bal", _test_of(inner[0].left), _test_of(inner[0].right)))
        elif hasattr(it, "accept"):
            if type(it).__name__ == "Balanced":
                raise Unmodelled("bare Balanced")
            out.append(("req", _test_of(it)))
        else:
            raise Unmodelled("element " + n)
    if sum(1 for e in out if e[0] == "bal") > 1:
        raise Unmodelled("several balanced runs")
    return out


try:
    SHAPE = shape_of(EXPR)
    UNMODELLED = None
except Unmodelled as e:
    SHAPE = None
    UNMODELLED = str(e)


def ref_run(toks, s):
    """Greedy run of the linear shape from position s. Returns (end or None, depth at end, ambiguous?).
    State: j = first element not yet passed; for a balanced element the number of tokens it has absorbed and its nesting depth."""
    E = SHAPE
    j, i, depth, in_bal, n = 0, s, 0, 0, len(toks)
    while i < n:
        t = toks[i]
        cands = []
        k = j
        while k < len(E):
            e = E[k]
            if e[0] == "bal":
                if e[1](t):
                    cands.append((k, 1))
                elif e[2](t):
                    if depth >= 1:
                        cands.append((k, -1))
                elif depth > 0:
                    cands.append((k, 0))
                if k == j and in_bal >= 1:
                    k += 1          # a run that already holds a token may be left
                    continue
                break
            if e[1](t):
                cands.append((k, None))
            if e[0] == "opt":
                k += 1              # an optional element may be skipped
                continue
            break
        if len(cands) > 1:
            return None, depth, True
        if not cands:
            break
        k, d = cands[0]
        if E[k][0] == "bal":
            if k != j:
                in_bal, depth = 0, 0
            depth += d
            in_bal += 1
            j = k
        else:
            j = k + 1
            in_bal = 0
        i += 1
    rest = E[j + 1:] if (j < len(E) and E[j][0] == "bal" and in_bal >= 1) else E[j:]
    if i > s and all(e[0] == "opt" for e in rest):
        return i, depth, False
    return None, depth, False


def clauses(toks, ms):
    n = len(toks)
    bad = []
    prev_end = 0
    for (s, e, mt) in ms:
        if not (0 <= s < e <= n):
            bad.append("bounds")
            continue
        if len(mt) != e - s or any(a is not b for a, b in zip(mt, toks[s:e])):
            bad.append("tokens")
        re_, depth, amb = ref_run(toks, s)
        if re_ != e:
            bad.append("not-the-greedy-match-of-its-start")
        elif e < n and depth != 0:
            bad.append("ends-early-with-open-parentheses")
        if s < prev_end:
            bad.append("overlap-or-order")
        prev_end = e
    shadow_only, same_end = True, False
    missing = False
    for s in range(n):
        e, depth, amb = ref_run(toks, s)
        if e is not None and not any(a <= s < b for (a, b, _) in ms):
            missing = True
            if any(s < a and b < e for (a, b, _) in ms):
                pass
            elif any(s < a and b == e for (a, b, _) in ms):
                same_end = True          # not the listed known finding (which needs the inner match to end EARLIER)
            else:
                shadow_only = False
    if missing:
        bad.append("incomplete:other" if not shadow_only else "incomplete:later-start-with-the-same-end-wins" if same_end else "incomplete:inner-match-shadows-outer")
    return bad


def _pre(ks):
    for i in range(N):
        if not (0 <= ks[i] < len(ALPHA)):
            return False
    for i in range(N, 5):
        if ks[i] != 0:
            return False
    return FIRST is None or ks[0] == FIRST


def _toks(ks):
    out = []
    for w in PREFIX:
        typ, val = next((t, v) for t, v in ALPHA if v == w)
        out.append(Token(Location(1, 1 + 10 * len(out)), typ, val))
    for i in range(N):
        typ, val = ALPHA[ks[i]]
        out.append(Token(Location(1, 1 + 10 * len(out)), typ, val))
    return out


def _sel(x, n):
    for i in range(n):
        if x == i:
            return i
    return 0


@untraced
def _concrete(ks):
    """The class indices are concrete here (selected by explicit branching): real find_all vs the reference, untraced."""
    toks = _toks(ks)
    ambiguous = any(ref_run(toks, s)[2] for s in range(len(toks)))
    try:
        r = matcher.find_all(EXPR, toks)
    except ValueError:
        return ([] if ambiguous else ["unexpected-ValueError"]), 0      # the ambiguity error is C15's subject; it must at least be predicted by the reference
    if ambiguous:
        return [], 0                # an attempt that dies before reaching the ambiguous token hides it: nothing to compare
    ms = [(m.start, m.end, m.tokens) for m in r]
    bad = [b for b in clauses(toks, ms) if ("find_all:" + b) not in TOLERATE]
    return bad, len(ms)


def h_shape(k0: int, k1: int, k2: int, k3: int, k4: int) -> bool:
    """
    pre: UNMODELLED is None and _pre([k0, k1, k2, k3, k4])
    post: _
    """
    bad, n = _concrete([_sel(k, len(ALPHA)) for k in [k0, k1, k2, k3, k4]])
    return fin(bad == [], n >= 1)


def real_h_shape(k0, k1, k2, k3, k4):
    from codelimit.common.gsm.matcher import find_all
    toks = _toks([k0, k1, k2, k3, k4])
    words = [t.value for t in toks]
    try:
        r = find_all(capture.capture(LANG)[PAIR][0], toks)
    except ValueError as e:
        amb = any(ref_run(toks, s)[2] for s in range(len(toks)))
        return {"reproduced": not amb, "sig": f"find_all:builtin:{LANG}:unexpected-ValueError", "detail": f"{words}: {e}"}
    ms = [(m.start, m.end, m.tokens) for m in r]
    bad = clauses(toks, ms)
    return {"reproduced": bool(bad), "sig": "find_all:" + "+".join(sorted(set(bad))), "detail": f"{LANG} header pattern #{PAIR} on {words} -> {[(s, e) for s, e, _ in ms]} violates {bad}"}


def status():
    return {"unmodelled": UNMODELLED, "alphabet": [w for _t, w in ALPHA], "elements": len(SHAPE) if SHAPE else 0}
