"""C16 — token positions are faithful to the source text. Real code: lexer_utils.lex, source_utils.get_newline_indices / location_to_index / filter_tokens,
Token.is_whitespace / is_comment. S-lex: the Pygments lexer is a stub yielding an arbitrary (offset, type, value) stream; get_newline_indices is replaced
by its contract (an arbitrary strictly increasing list) in h_lex and checked against that contract on symbolic strings in h_newlines.
param: {"K": number of newlines (0..3)}"""
from pygments.token import Token as PT

import codelimit.common.lexer_utils as lu
from codelimit.common.Location import Location
from codelimit.common.Token import Token
from codelimit.common.source_utils import filter_tokens, get_newline_indices, location_to_index
from vlib.hx import fin, param, untraced

K = param("K", 2)
ALLOW_EMPTY = param("allow_empty", True)
KINDS = [PT.Name, PT.Text, PT.Text.Whitespace, PT.Comment.Single, PT.Comment]      # bare Comment: what the C lexers give `#if 0` regions
K0 = param("k0", None)
FIXED_KIND = param("fixed_kind", False)   # position harness: all three tokens are non-empty Names


class SV:
    """Duck-typed token text: only its length and whether it is all-whitespace are modelled (both symbolic)."""
    def __init__(self, n, space):
        self.n, self.space = n, space

    def isspace(self):
        return self.space and self.n > 0

    def __len__(self):
        return self.n


class StubLexer:
    def __init__(self, stream):
        self.stream = stream

    def get_tokens_unprocessed(self, code):
        for t in self.stream:
            yield t


def oracle(off, nls):
    line = 1
    last = -1
    for nl in nls:
        if nl < off:
            line += 1
            last = nl
    return line, off - last


def _pre_lex(nl, offs, lens, kinds):
    for i in range(len(nl)):
        if nl[i] < 0 or (i > 0 and nl[i] <= nl[i - 1]):
            return False
    prev_end = 0
    for o, l, k in zip(offs, lens, kinds):
        if o < prev_end or l < 0 or (l == 0 and not ALLOW_EMPTY) or not (0 <= k < len(KINDS)):
            return False
        prev_end = o + l
    return True


def h_lex(n0: int, n1: int, n2: int, o0: int, o1: int, o2: int, l0: int, l1: int, l2: int, k0: int, k1: int, k2: int, s0: bool, s1: bool, s2: bool, keep: bool) -> bool:
    """
    pre: _pre_lex([n0, n1, n2][:K], [o0, o1, o2], [l0, l1, l2], [k0, k1, k2]) and (K0 is None or k0 == K0) and (not FIXED_KIND or (k0 == 0 and k1 == 0 and k2 == 0 and l0 > 0 and l1 > 0 and l2 > 0 and not s0 and not s1 and not s2))
    post: _
    """
    nls = [n0, n1, n2][:K]
    stream = [(o, KINDS[k], SV(l, s)) for o, k, l, s in zip([o0, o1, o2], [k0, k1, k2], [l0, l1, l2], [s0, s1, s2])]
    saved = lu.get_newline_indices
    lu.get_newline_indices = lambda code: list(nls)
    try:
        toks = lu.lex(StubLexer(stream), "<code>", not keep)
    finally:
        lu.get_newline_indices = saved
    # expected: every non-empty token that is neither whitespace nor a filtered comment, in order, at the oracle position
    exp = []
    for (o, ty, v) in stream:
        is_ws = (ty == PT.Text or ty == PT.Text.Whitespace) and v.isspace()
        is_c = ty in PT.Comment
        if is_ws or (is_c and not keep) or len(v) == 0:
            continue
        exp.append((oracle(o, nls), ty, v))
    got = [t for t in toks if len(t.value) > 0]      # zero-length tokens may be kept or dropped (the statement does not say) ...
    ok = len(got) == len(exp)
    if ok:
        for t, (pos, ty, v) in zip(got, exp):
            ok = ok and (t.location.line, t.location.column) == pos and t.token_type == ty and t.value is v
    for t in toks:
        ok = ok and not t.is_whitespace() and (keep or not t.is_comment())
    # ... but whatever is kept must be in strictly increasing, non-overlapping source order
    for i in range(len(toks) - 1):
        a, b = toks[i], toks[i + 1]
        ok = ok and a.location.lt(b.location)
    return fin(ok, len(exp) == 3 and K >= 1 and o2 > nls[0])


def real_h_lex(**kw):
    """A stream with an empty token is realisable through the real Pygments lexers? (artefact search used for confirmation only)"""
    from pygments.lexers import get_lexer_by_name
    from codelimit.common.lexer_utils import lex
    lens = [kw["l0"], kw["l1"], kw["l2"]]
    cands = [("javascript", "x = 1\n// c\n"), ("typescript", "x = 1\n// c\n"), ("python", "x = 1\n\n"), ("c", "int x;\n// c\n")]
    hits = []
    for name, text in cands:
        toks = lex(get_lexer_by_name(name), text, False)
        for a, b in zip(toks, toks[1:]):
            if not a.location.lt(b.location):
                hits.append(f"{name} {text!r}: tokens {a.value!r}@{a.location} and {b.value!r}@{b.location}")
    if 0 in lens and hits:
        return {"reproduced": True, "sig": "lex:zero-length-token-shares-position", "detail": hits[0]}
    if 0 in lens:
        return {"reproduced": False, "contract_only": True, "detail": "zero-length token: no real lexer output found that contains one"}
    # no empty token involved: reproduce at unit level with a real text built from the layout
    return None


def h_newlines(code: str) -> bool:
    """
    pre: len(code) <= 4
    post: _
    """
    got = list(get_newline_indices(code))
    exp = [i for i in range(len(code)) if code[i] == "\n"]
    ok = got == exp
    # location_to_index inverts the oracle for every offset
    for idx in range(len(code)):
        line, col = oracle(idx, exp)
        ok = ok and location_to_index(code, Location(line, col)) == idx
    return fin(ok, len(exp) >= 2 and len(code) == 4)


def h_filter(k: int, v: str, keep_c: bool, keep_w: bool) -> bool:
    """
    pre: 0 <= k < len(KINDS) and len(v) <= 3
    post: _
    """
    t = Token(Location(1, 1), KINDS[k], v)
    ws = (KINDS[k] == PT.Text or KINDS[k] == PT.Text.Whitespace) and len(v) > 0 and all(c.isspace() for c in v)
    cm = KINDS[k] in PT.Comment
    ok = t.is_whitespace() == ws and t.is_comment() == cm
    kept = filter_tokens([t], keep_whitespace=keep_w, keep_comments=keep_c)
    exp = keep_w if ws else (keep_c if cm else True)
    return fin(ok and (len(kept) == 1) == exp, ws)


# ----------------------------------------------------------------------------------------------- lexing is a pure function of the text (no state carried from one call to the next)
CHARS = ["a", "\n", " ", "\r", "\x0c", ";", "\ufeff"]      # incl. a byte-order mark: it is a character of the text like any other
FIX_A0 = param("fix_a0", None)


class CharLexer:
    """every character is one token at its own offset (whitespace characters as Text)"""
    def get_tokens_unprocessed(self, code):
        for i, c in enumerate(code):
            yield (i, PT.Text if c.isspace() else PT.Name, c)


def _pick(x, n):
    for k in range(n):
        if x == k:
            return k
    return 0


@untraced
def _lex_sequence(texts):
    """lex each text of the sequence in turn; every result must be the oracle's for that text alone, and get_newline_indices must keep answering from the text."""
    bad = []
    for code in texts:
        nls = [i for i, c in enumerate(code) if c == "\n"]
        if list(get_newline_indices(code)) != nls:
            bad.append("newline-indices-before")
        toks = lu.lex(CharLexer(), code, False)
        exp = [(oracle(i, nls), c) for i, c in enumerate(code) if not c.isspace()]
        got = [((t.location.line, t.location.column), t.value) for t in toks]
        if got != exp:
            bad.append("positions")
        if list(get_newline_indices(code)) != nls:
            bad.append("newline-indices-after")
    return sorted(set(bad))


def h_lex_twice(a0: int, a1: int, a2: int, a3: int, b0: int, b1: int, mode: int) -> bool:
    """
    pre: all(0 <= x < len(CHARS) for x in [a0, a1, a2, a3, b0, b1]) and 0 <= mode <= 2 and (FIX_A0 is None or a0 == FIX_A0) and a3 == 0 and b1 == 0
    post: _
    """
    a = "".join(CHARS[_pick(x, len(CHARS))] for x in [a0, a1, a2, a3])
    b = "".join(CHARS[_pick(x, len(CHARS))] for x in [b0, b1])
    m = _pick(mode, 3)
    seq = [a, a] if m == 0 else [a, b, a] if m == 1 else [a, a, a]
    return fin(_lex_sequence(seq) == [], m == 1)


def real_h_lex_twice(a0, a1, a2, a3, b0, b1, mode):
    from pygments.lexers import get_lexer_by_name
    from codelimit.common.lexer_utils import lex
    a = "".join(CHARS[x] for x in [a0, a1, a2, a3])
    b = "".join(CHARS[x] for x in [b0, b1])
    seq = [a, a] if mode == 0 else [a, b, a] if mode == 1 else [a, a, a]
    lexer = get_lexer_by_name("c")
    first = [(t.location.line, t.location.column, t.value) for t in lex(lexer, seq[0], False)]
    res = []
    for code in seq:
        res.append([(t.location.line, t.location.column, t.value) for t in lex(lexer, code, False)])
    # the first call of a process is the reference for its text; a later call on the same text must agree
    diff = [i for i, code in enumerate(seq) if code == seq[0] and res[i] != first]
    if diff:
        return {"reproduced": True, "sig": "lex:result-depends-on-earlier-calls", "detail": f"real C lexer, texts {seq!r}: call #{diff[0]} differs from the first call on the same text: {res}"}
    # not a purity problem: are the positions those of the text at all? (own computation from the lexer's offsets)
    for i, code in enumerate(seq):
        nls = [k for k, c in enumerate(code) if c == "\n"]
        exp = [oracle(off, nls) + (val,) for off, ty, val in lexer.get_tokens_unprocessed(code) if val != "" and not ((ty == PT.Text or ty == PT.Text.Whitespace) and val.isspace())]
        if res[i] != exp:
            return {"reproduced": True, "sig": "lex:positions-differ-from-the-text", "detail": f"real C lexer on {code!r}: lex() gives {res[i]}, the text gives {exp}"}
    return {"reproduced": False, "sig": "lex:", "detail": f"real C lexer, texts {seq!r}: {res}"}
