"""C13 — the pattern engine implements regular-expression semantics (E1: CrossHair on the real match / nfa_match / starts_with).

param: {"patterns": [tree...], "L": max sequence length}. The pattern index and the letters are solver variables.
S-auto: expression_to_nfa / nfa_to_dfa run for real but untraced (their argument is concrete); the stepping code is traced.
"""
import codelimit.common.gsm.matcher as matcher
from vlib import pat
from vlib.hx import fin, param, untraced

matcher.expression_to_nfa = untraced(matcher.expression_to_nfa)
matcher.nfa_to_dfa = untraced(matcher.nfa_to_dfa)


def _tup(t):
    return tuple(_tup(x) if isinstance(x, list) else x for x in t)


PATTERNS = [_tup(t) for t in param("patterns", [])]
BASE = 1000     # letters are the ints 1000..1003, computed at run time: equal values are then distinct objects (a matcher must compare by ==, not identity)


def _lift(t):
    return ("atom", BASE + t[1]) if t[0] == "atom" else (t[0],) + tuple(_lift(c) for c in t[1:])


EXPRS = [untraced(pat.to_expression)(_lift(t)) for t in PATTERNS]
L = param("L", 4)


def _seq(n, ws):
    return list(ws[:n])


def _items(w):
    return [BASE + x for x in w]


def _ok_letters(ws):
    return all(0 <= x <= 3 for x in ws)


def h_match(p: int, n: int, w0: int, w1: int, w2: int, w3: int, w4: int, w5: int) -> bool:
    """
    pre: 0 <= p < len(PATTERNS) and 0 <= n <= L and _ok_letters([w0, w1, w2, w3, w4, w5])
    post: _
    """
    w = _seq(n, [w0, w1, w2, w3, w4, w5])
    r = matcher.match(EXPRS[p], _items(w))
    exp = pat.ref_match(PATTERNS[p], w)
    ok = (r is not None) == exp
    if r is not None:
        ok = ok and r.start == 0 and r.end == n and r.tokens == _items(w)
    return fin(ok, exp and n >= 1)


def h_nfa_match(p: int, n: int, w0: int, w1: int, w2: int, w3: int, w4: int, w5: int) -> bool:
    """
    pre: 0 <= p < len(PATTERNS) and 0 <= n <= L and _ok_letters([w0, w1, w2, w3, w4, w5])
    post: _
    """
    w = _seq(n, [w0, w1, w2, w3, w4, w5])
    r = matcher.nfa_match(EXPRS[p], _items(w))
    exp = pat.ref_match(PATTERNS[p], w)
    return fin(bool(r) == exp, exp and n >= 1)


def h_starts_with(p: int, n: int, w0: int, w1: int, w2: int, w3: int, w4: int, w5: int) -> bool:
    """
    pre: 0 <= p < len(PATTERNS) and 0 <= n <= L and _ok_letters([w0, w1, w2, w3, w4, w5])
    post: _
    """
    w = _seq(n, [w0, w1, w2, w3, w4, w5])
    r = matcher.starts_with(EXPRS[p], _items(w))
    exp = pat.ref_starts_with(PATTERNS[p], w)
    if exp is None:
        ok = r is None
    else:
        ok = r is not None and r.start == 0 and r.end == exp and r.tokens == _items(w[:exp])
    return fin(ok, exp is not None)


# --------------------------------------------------------------------------- construction terminates (pattern tree symbolic)
_orig_e2n = matcher.expression_to_nfa
_orig_n2d = matcher.nfa_to_dfa
NODES = param("nodes", 4)
C0 = param("c0", None)


def _decode(code, pos):
    """Prefix code -> (tree, next position) or (None, pos) when the code runs out. 0-2 atoms, 3 opt, 4 star, 5 plus, 6 seq, 7 alt."""
    if pos >= len(code):
        return None, pos
    c = 0
    for v in range(8):          # realise the code point by explicit branching (no symbolic value may leak into the tree)
        if code[pos] == v:
            c = v
    if c <= 2:
        return ("atom", c), pos + 1
    if c <= 5:
        t, q = _decode(code, pos + 1)
        return (None, q) if t is None else ((("opt", "star", "plus")[c - 3], t), q)
    l, q = _decode(code, pos + 1)
    if l is None:
        return None, q
    r, q2 = _decode(code, q)
    if r is None:
        return None, q2
    return (("seq", "alt")[c - 6], l, r), q2


@untraced
def _build_and_probe(t):
    import sys
    expr = pat.to_expression(_lift(t))
    dfa = _orig_n2d(_orig_e2n(expr))
    from codelimit.common.gsm.matcher import match, nfa_match
    return (match(expr, []) is not None), bool(nfa_match(expr, [])), len(dfa.accepting)


def h_build(c0: int, c1: int, c2: int, c3: int, c4: int) -> bool:
    """
    pre: all(0 <= c <= 7 for c in [c0, c1, c2, c3, c4]) and (C0 is None or c0 == C0)
    post: _
    """
    code = [c0, c1, c2, c3, c4][:NODES]
    t, used = _decode(code, 0)
    if t is None:
        return fin(True, False)
    m, nm, nacc = _build_and_probe(t)   # RecursionError / non-termination here is the failure
    ok = (m == pat.nullable(t)) and (nm == pat.nullable(t))
    return fin(ok, t[0] == "star" and t[1][0] == "opt")


# ----------------------------------------------------------------------------------------------- matching is a function of (pattern, sequence): an earlier match in the same process changes nothing
_SNAP = None
FIX_Q = param("fix_q", None)


def _pick(x, n):
    for k in range(n):
        if x == k:
            return k
    return 0


@untraced
def _after(q, p, w):
    """the three entry points with pattern q on a fixed word first (unless q < 0), then with pattern p on w; the second round is judged against the reference."""
    from vlib.hx import StateSnapshot
    global _SNAP
    if _SNAP is None:
        _SNAP = StateSnapshot()
    _SNAP.restore()
    if q >= 0:
        e = pat.to_expression(_lift(PATTERNS[q]))
        first = _items([0, 1, 2, 0, 1])
        matcher.match(e, first), matcher.nfa_match(e, first), matcher.starts_with(e, first)
    e = pat.to_expression(_lift(PATTERNS[p]))
    bad = []
    if (matcher.match(e, _items(w)) is not None) != pat.ref_match(PATTERNS[p], w):
        bad.append("match")
    if bool(matcher.nfa_match(e, _items(w))) != pat.ref_match(PATTERNS[p], w):
        bad.append("nfa_match")
    r = matcher.starts_with(e, _items(w))
    if (r.end if r is not None else None) != pat.ref_starts_with(PATTERNS[p], w):
        bad.append("starts_with")
    return bad


def h_match_after(q: int, p: int, n: int, w0: int, w1: int, w2: int, w3: int) -> bool:
    """
    pre: -1 <= q < len(PATTERNS) and (FIX_Q is None or q == FIX_Q) and 0 <= p < len(PATTERNS) and 0 <= n <= 4 and n <= L and _ok_letters([w0, w1, w2, w3]) and all(x == 0 for x in [w0, w1, w2, w3][n:])
    post: _
    """
    w = [_pick(x, 4) for x in [w0, w1, w2, w3]][:_pick(n, 5)]
    bad = _after(_pick(q + 1, len(PATTERNS) + 1) - 1, _pick(p, len(PATTERNS)), w)
    return fin(bad == [], q >= 0 and n >= 1)


def real_h_match_after(q, p, n, w0, w1, w2, w3):
    w = [w0, w1, w2, w3][:n]
    bad = _after.__wrapped__(q, p, w)
    return {"reproduced": bool(bad), "sig": "match:after-another-match:" + "+".join(bad), "detail": f"pattern {pat.show(PATTERNS[p])} on {''.join('abcd'[x] for x in w)!r} after matching {pat.show(PATTERNS[q]) if q >= 0 else None} on 'abcab': wrong {bad}"}
