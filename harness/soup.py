"""Token-soup bounded model checking (C03 totality, C05 well-formedness, C06 isolation): the REAL scan_file on N symbolic tokens.

param: {"lang", "N", "first": optional fixed class of the first token, "mode": total | wellformed}
Alphabet: derived at import time from the predicates of the language's captured expressions (keywords, symbols, operators, values they name) plus
generic members (identifier, other keyword, literal, ';', braces, parentheses); the Pygments type of every member is what the REAL lexer emits for it.
Layout: token i is d_i >= 0 lines below token i-1 (d_0 is its absolute line), at column c_i if it starts a line, else right after its predecessor + s_i spaces.
"""
from pygments.lexers import get_lexer_by_name
from pygments.token import Token as PT

from codelimit.common.Location import Location
from codelimit.common.Scanner import scan_file
from codelimit.common.Token import Token
from vlib import capture
from vlib.hx import fin, param

LANG = param("lang", "C")
N = param("N", 3)
FIRST = param("first", None)
MODE = param("mode", "wellformed")
TOLERATE = param("tolerate", [])
FRAME = param("frame", None)     # [words before], [words after]: the symbolic tokens sit inside a fixed function frame so that results are non-empty
LANGUAGE = capture.language(LANG)


def _walk(x, acc):
    if isinstance(x, (list, tuple)):
        for y in x:
            _walk(y, acc)
        return
    d = getattr(x, "__dict__", None)
    if d is None:
        if isinstance(x, str):
            acc.add(("value", x))
        return
    cls = type(x).__name__
    if cls == "Keyword":
        acc.add(("keyword", x.keyword))
    elif cls == "Symbol":
        acc.add(("symbol", x.symbol))
    elif cls == "Operator" and hasattr(x, "symbol"):
        acc.add(("operator", x.symbol))
    elif cls == "TokenValue":
        acc.add(("value", x.value))
    elif cls == "Identity":
        acc.add(("value", x.item) if isinstance(x.item, str) else ("other", ""))
    for v in d.values():
        if v is not x and (hasattr(v, "__dict__") or isinstance(v, (list, tuple))):
            _walk(v, acc)


def _alphabet():
    acc = set()
    for expr, follow in capture.capture(LANG):
        _walk(expr, acc)
        if follow is not None:
            _walk(follow, acc)
    words = ["x", "(", ")", "{", "}", ";", "1", "if"]
    if LANG == "Java":
        words += ["new", "record"]       # filter_headers looks at these
    if LANG == "Python":
        words += [":", "\\\n"]
    for kind, v in sorted(acc):
        if v and v not in words:
            words.append(v)
    # type of each member = what the real lexer says when the word stands alone between spaces
    lx = get_lexer_by_name(capture.LEXER_FOR[LANG])
    out = []
    for w in words:
        typ = None
        for off, t, v in lx.get_tokens_unprocessed(" " + w + " "):
            if v == w or (w == "\\\n" and v.strip(" ") == w):
                typ = t
        if typ is None:
            typ = PT.Text
        out.append((typ, w))
    return out


ALPHA = _alphabet()


def _pre(ks, ds, cs, ss):
    for i in range(N):
        if not (0 <= ks[i] < len(ALPHA)):
            return False
        if ds[i] < 0 or cs[i] < 1 or ss[i] < 0:
            return False
    if ds[0] < 1 and not FRAME:
        return False
    if FIRST is not None and ks[0] != FIRST:
        return False
    for i in range(N, 5):
        if FRAME and i == 4:
            if ks[4] != 0 or ds[4] < 0 or cs[4] < 1 or ss[4] != 0:
                return False
            continue
        if ks[i] != 0 or ds[i] != 0 or cs[i] != 1 or ss[i] != 0:
            return False
    return True


def _word(w):
    for typ, val in ALPHA:
        if val == w:
            return typ, val
    raise KeyError(w)


def build(ks, ds, cs, ss):
    toks = []
    line = 0
    col = 1
    if FRAME:
        line = 1
        for w in FRAME[0]:
            typ, val = _word(w)
            toks.append(Token(Location(line, col), typ, val))
            col = col + len(val) + 1
    for i in range(N):
        typ, val = ALPHA[ks[i]]
        if (i == 0 and not FRAME) or ds[i] > 0:
            line = line + ds[i]
            col = cs[i]
        else:
            col = col + ss[i]
        toks.append(Token(Location(line, col), typ, val))
        col = col + len(val)
    if FRAME:
        for j, w in enumerate(FRAME[1]):      # closing part of the frame: its own layout variables (slot 4)
            typ, val = _word(w)
            if j == 0 and ds[4] > 0:
                line = line + ds[4]
                col = cs[4]
            else:
                col = col + 1
            toks.append(Token(Location(line, col), typ, val))
            col = col + len(val)
    return toks


def wellformed(ms, toks):
    """The clauses of C05 over a measurement list and the code-token stream it came from. Returns the list of violated clause names."""
    bad = []
    last_line = toks[-1].location.line if toks else 0
    prev = None
    for m in ms:
        if not (1 <= m.start.line <= m.end.line <= last_line):
            bad.append("lines-out-of-range")
        if m.start.column < 1 or m.end.column < 1:
            bad.append("columns-out-of-range")
        if not any(t.location.line == m.start.line and t.location.column == m.start.column for t in toks):
            bad.append("start-not-at-a-code-token")
        if not any(t.location.line == m.end.line and t.location.column + len(t.value) == m.end.column for t in toks):
            bad.append("end-not-just-past-a-code-token")
        inside = [t for t in toks if not t.location.lt(m.start) and t.location.lt(m.end)]
        if not any(t.is_name() and t.value == m.unit_name for t in inside):
            bad.append("name-not-an-identifier-inside-the-span")
        nlines = len(set(t.location.line for t in inside))
        if not (1 <= m.value <= nlines):
            bad.append("length-not-within-1..code-lines-of-span")
        if prev is not None and not prev.start.lt(m.start):
            bad.append("not-in-source-order-or-duplicate-start")
        prev = m
    return bad


def _run(ks, ds, cs, ss):
    toks = build(ks, ds, cs, ss)
    try:
        ms = scan_file(toks, LANGUAGE)
    except ValueError as e:
        if "Multiple transitions" in str(e) and any(":ValueError:" in t for t in TOLERATE):
            return toks, []       # listed known finding (arrow-pattern ambiguity), assumed away
        raise
    return toks, ms


def h_total(k0: int, k1: int, k2: int, k3: int, k4: int, d0: int, d1: int, d2: int, d3: int, d4: int, c0: int, c1: int, c2: int, c3: int, c4: int, s0: int, s1: int, s2: int, s3: int, s4: int) -> bool:
    """
    pre: _pre([k0, k1, k2, k3, k4], [d0, d1, d2, d3, d4], [c0, c1, c2, c3, c4], [s0, s1, s2, s3, s4])
    post: _
    """
    toks, ms = _run([k0, k1, k2, k3, k4], [d0, d1, d2, d3, d4], [c0, c1, c2, c3, c4], [s0, s1, s2, s3, s4])
    if MODE == "total":            # C03: returning normally with a list is the whole postcondition
        return fin(isinstance(ms, list), True)
    bad = wellformed(ms, toks)
    return fin(bad == [], True)


# ----------------------------------------------------------------------------------------------- replay through the real lexer
def render(ks, ds, cs, ss):
    lines = {}
    toks = build(ks, ds, cs, ss)
    for t in toks:
        ln = lines.setdefault(t.location.line, "")
        pad = t.location.column - 1 - len(ln)
        if pad < 0:
            pad = 1
        lines[t.location.line] = ln + " " * pad + t.value.replace("\n", "")
        if t.value.endswith("\n"):
            lines[t.location.line] += "\\"
    maxl = max(lines) if lines else 0
    return "\n".join(lines.get(i, "") for i in range(1, maxl + 1)) + "\n"


def real_h_total(**kw):
    from codelimit.common.lexer_utils import lex
    ks = [kw[f"k{i}"] for i in range(5)]
    ds = [kw[f"d{i}"] for i in range(5)]
    cs = [kw[f"c{i}"] for i in range(5)]
    ss = [kw[f"s{i}"] for i in range(5)]
    intended = [ALPHA[k][1] for k in ks[:N]]
    variants = [render(ks, ds, cs, ss)]
    variants.append(variants[0].rstrip("\n"))          # same text without the final newline
    last = None
    for text in variants:
        toks = lex(get_lexer_by_name(capture.LEXER_FOR[LANG]), text, False)
        try:
            ms = scan_file(toks, LANGUAGE)
        except Exception as e:
            return {"reproduced": True, "sig": f"total:{LANG}:{type(e).__name__}:{' '.join(intended)}", "detail": f"{type(e).__name__}: {e} on text {text!r}"}
        from codelimit.common.source_utils import filter_tokens
        bad = wellformed(ms, filter_tokens(toks))
        if bad:
            return {"reproduced": True, "sig": f"wellformed:{LANG}:{'+'.join(sorted(set(bad)))}:{' '.join(intended)}", "detail": f"{bad} for {[(m.unit_name, m.start, m.end, m.value) for m in ms]} on text {text!r}"}
        last = text
    return {"reproduced": False, "contract_only": True, "detail": f"token-level counterexample {intended} is not reproduced by the text {last!r} through the real lexer"}
