"""C07 — totals, profiles and the folder tree agree with the measurements. Real code: Codebase.add_file/add_folder/aggregate, LanguageTotals.add,
ScanTotals.total_*, SourceFileEntry, SourceFolder, utils.make_profile/make_count_profile/merge_profiles/get_parent_folder/get_basename.
param: {"paths": [relative paths], "langs": [language per file], "sym": [indices of files whose two measurement values are solver variables], "perms": [[...], ...]}"""
from codelimit.common.Codebase import Codebase
from codelimit.common.Location import Location
from codelimit.common.Measurement import Measurement
from codelimit.common.ScanTotals import ScanTotals
from codelimit.common.SourceFileEntry import SourceFileEntry
from vlib.hx import fin, param

PATHS = param("paths", ["a.py", "a/b.py"])
LANGS = param("langs", ["Python"] * len(PATHS))
SYM = param("sym", [0, 1])
PERMS = param("perms", [list(range(len(PATHS)))])
CONC = [[7, 40], [16, 61], [30, 31], [15, 100]]


def cat(v):
    return 0 if v <= 15 else 1 if v <= 30 else 2 if v <= 60 else 3


def prof(vals):
    p = [0, 0, 0, 0]
    for v in vals:
        p[cat(v)] += v
    return p


def add(p, q):
    return [p[i] + q[i] for i in range(4)]


def ancestors(path):
    parts = path.split("/")[:-1]
    return ["/".join(parts[:i + 1]) for i in range(len(parts))]


def h_codebase(pi: int, v0: int, v2: int) -> bool:
    """
    pre: 0 <= pi < len(PERMS) and v0 >= 1 and v2 >= 1
    post: _
    """
    sym_vals = [[v0, 33], [v2, 8]]
    vals = []
    for i in range(len(PATHS)):
        vals.append(sym_vals[SYM.index(i)] if i in SYM else CONC[i % len(CONC)])
    order = PERMS[0]
    for k in range(len(PERMS)):
        if pi == k:
            order = PERMS[k]
    cb = Codebase("/root")
    entries = {}
    for i in order:
        ms = [Measurement(f"f{i}_{j}", Location(1 + j, 1), Location(2 + j, 2), v) for j, v in enumerate(vals[i])]
        # checksums: files of different languages may be byte-identical (same checksum, different functions); files of one language are distinct
        e = SourceFileEntry(PATHS[i], "k%d" % [j for j in range(len(PATHS)) if LANGS[j] == LANGS[i]].index(i), LANGS[i], sum(vals[i]), ms)
        entries[PATHS[i]] = e
        cb.add_file(e)
    cb.aggregate()
    ok = True
    # ---- files map
    ok = ok and sorted(cb.files.keys()) == sorted(PATHS) and all(cb.files[p] is entries[p] for p in PATHS)
    # ---- per-language totals and grand totals
    st = ScanTotals(cb.totals)
    ok = ok and sorted(cb.totals.keys()) == sorted(set(LANGS))
    gt = [0, 0, 0, 0, 0]
    for lang in set(LANGS):
        idx = [i for i in range(len(PATHS)) if LANGS[i] == lang]
        t = cb.totals[lang]
        exp = [len(idx), sum(sum(vals[i]) for i in idx), sum(len(vals[i]) for i in idx),
               sum(1 for i in idx for v in vals[i] if cat(v) == 2), sum(1 for i in idx for v in vals[i] if cat(v) == 3)]
        ok = ok and [t.files, t.loc, t.functions, t.hard_to_maintain, t.unmaintainable] == exp and t.language == lang
        gt = [gt[k] + exp[k] for k in range(5)]
    ok = ok and [st.total_files(), st.total_loc(), st.total_functions(), st.total_hard_to_maintain(), st.total_unmaintainable()] == gt
    # ---- file profiles partition the file's line total
    for i, p in enumerate(PATHS):
        ok = ok and entries[p].profile() == prof(vals[i]) and sum(entries[p].profile()) == entries[p].loc
    # ---- folder tree: keys, entries, profiles
    folders = {"."}
    for p in PATHS:
        folders.update(ancestors(p))
    keys = {"./" if f == "." else f + "/" for f in folders}
    ok = ok and set(cb.tree.keys()) == keys
    for f in folders:
        node = cb.tree["./" if f == "." else f + "/"]
        exp_files = sorted(p.split("/")[-1] for p in PATHS if (("/".join(p.split("/")[:-1])) or ".") == f)
        exp_dirs = sorted(g.split("/")[-1] + "/" for g in folders if g != "." and (("/".join(g.split("/")[:-1])) or ".") == f)
        got_files = sorted(e.name for e in node.entries if e.is_file())
        got_dirs = sorted(e.name for e in node.entries if e.is_folder())
        ok = ok and got_files == exp_files and got_dirs == exp_dirs
        ok = ok and all((e.is_file() and cb.files[e.path] is e) for e in node.entries if e.is_file())
        beneath = [i for i, p in enumerate(PATHS) if f == "." or p.startswith(f + "/")]
        ep = [0, 0, 0, 0]
        for i in beneath:
            ep = add(ep, prof(vals[i]))
        ok = ok and node.profile == ep
    return fin(ok, cat(v0) == 2 and cat(v2) == 3)
