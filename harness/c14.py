"""C14 — search (find_all) returns sound, ordered, disjoint, longest and complete matches. E1: CrossHair on the real find_all.

param: {"patterns": [non-nullable trees], "L": max length}. Oracle: derivative-based greedy semantics (vlib.pat), no shared code.
"""
import codelimit.common.gsm.matcher as matcher
from vlib import pat
from vlib.hx import fin, param, untraced

matcher.expression_to_nfa = untraced(matcher.expression_to_nfa)
matcher.nfa_to_dfa = untraced(matcher.nfa_to_dfa)


def _tup(t):
    return tuple(_tup(x) if isinstance(x, list) else x for x in t)


PATTERNS = [_tup(t) for t in param("patterns", [])]
BASE = 1000     # letters are the ints 1000..1003, computed at run time: equal values are then distinct objects (a matcher must compare by ==, not identity)


def _lift(t):
    return ("atom", BASE + t[1]) if t[0] == "atom" else (t[0],) + tuple(_lift(c) for c in t[1:])


EXPRS = [untraced(pat.to_expression)(_lift(t)) for t in PATTERNS]
L = param("L", 4)
TOLERATE = param("tolerate", [])


def _ok_letters(ws):
    return all(0 <= x <= 3 for x in ws)


def clauses(t, w, ms):
    """Names of the violated clauses of the statement for result ms = [(start, end, tokens)] on sequence w."""
    n = len(w)
    bad = []
    prev_end = 0
    for (s, e, toks) in ms:
        if not (0 <= s < e <= n):
            bad.append("bounds")
            continue
        if toks != w[s:e]:
            bad.append("tokens")
        if not pat.ref_match(t, w[s:e]):
            bad.append("not-a-word")
        if pat.ref_longest(t, w, s) != e:
            bad.append("not-longest")
        if s < prev_end:
            bad.append("overlap-or-order")
        prev_end = e
    for s in range(n):
        e = pat.ref_greedy(t, w, s)
        if e is not None and not any(ms_ <= s < me_ for (ms_, me_, _) in ms):
            bad.append("incomplete")
            break
    return bad


def h_find_all(p: int, n: int, w0: int, w1: int, w2: int, w3: int, w4: int, w5: int) -> bool:
    """
    pre: 0 <= p < len(PATTERNS) and 0 <= n <= L and _ok_letters([w0, w1, w2, w3, w4, w5])
    post: _
    """
    w = [w0, w1, w2, w3, w4, w5][:n]
    r = matcher.find_all(EXPRS[p], [BASE + x for x in w])
    ms = [(m.start, m.end, [x - BASE for x in m.tokens]) for m in r]
    bad = clauses(PATTERNS[p], w, ms)
    if bad and TOLERATE and classify(PATTERNS[p], w, ms, bad) in TOLERATE:
        bad = []            # a listed known finding: assumed away so that the rest of the space is still explored
    return fin(bad == [], len(ms) >= 1)


def classify(t, w, ms, bad):
    n = len(w)
    kinds = []
    for b in sorted(set(bad)):
        if b == "incomplete":
            # is every uncovered greedy success shadowed by a reported match that lies inside its span?
            # the listed known finding: every uncovered greedy success is shadowed by a reported match that lies inside its span AND ends before it would
            # (an attempt is discarded when a later-starting attempt completes first). A reported match that ends exactly where the uncovered one would end is a
            # different failure (the leftmost of two attempts ending together must win) and is classified separately.
            inner, same_end = True, False
            for s0 in range(n):
                e0 = pat.ref_greedy(t, w, s0)
                if e0 is not None and not any(a <= s0 < b_ for (a, b_, _) in ms):
                    if any(s0 < a and b_ < e0 for (a, b_, _) in ms):
                        pass
                    elif any(s0 < a and b_ == e0 for (a, b_, _) in ms):
                        same_end = True
                    else:
                        inner = False
            kinds.append("incomplete:other" if not inner else "incomplete:later-start-with-the-same-end-wins" if same_end else "incomplete:inner-match-shadows-outer")
        elif b == "overlap-or-order":
            kinds.append("overlap-or-order" + (":at-end-of-input" if any(e == n for (_, e, _) in ms) else ""))
        else:
            kinds.append(b)
    return "find_all:" + "+".join(kinds)


def real_h_find_all(p, n, w0, w1, w2, w3, w4, w5):
    """Replay on the real find_all imported fresh (no stubs, no tracing) + classification for the known-findings file."""
    from codelimit.common.gsm.matcher import find_all
    w = [w0, w1, w2, w3, w4, w5][:n]
    t = PATTERNS[p]
    r = find_all(pat.to_expression(_lift(t)), [int(str(BASE + x)) for x in w])
    ms = [(m.start, m.end, [x - BASE for x in m.tokens]) for m in r]
    bad = clauses(t, w, ms)
    sig = classify(t, w, ms, bad)
    return {"reproduced": bool(bad), "sig": sig, "detail": f"pattern {pat.show(t)} on {''.join('abcd'[x] for x in w)!r} -> {[(s, e) for s, e, _ in ms]} violates {bad}"}


# ----------------------------------------------------------------------------------------------- a search is a function of (pattern, sequence): an earlier search in the same process changes nothing
_SNAP = None
FIX_Q = param("fix_q", None)


def _pick(x, n):
    for k in range(n):
        if x == k:
            return k
    return 0


@untraced
def _after(q, p, w):
    """find_all with pattern q on a fixed word first (unless q < 0), then pattern p on w; the second result is judged by the clauses as usual."""
    from vlib.hx import StateSnapshot
    global _SNAP
    if _SNAP is None:
        _SNAP = StateSnapshot()
    _SNAP.restore()
    if q >= 0:
        matcher.find_all(pat.to_expression(_lift(PATTERNS[q])), [BASE + x for x in (0, 1, 2, 0, 1)])
    r = matcher.find_all(pat.to_expression(_lift(PATTERNS[p])), [BASE + x for x in w])
    ms = [(m.start, m.end, [x - BASE for x in m.tokens]) for m in r]
    bad = clauses(PATTERNS[p], w, ms)
    if bad and TOLERATE and classify(PATTERNS[p], w, ms, bad) in TOLERATE:
        bad = []
    return bad, len(ms)


def h_find_all_after(q: int, p: int, n: int, w0: int, w1: int, w2: int, w3: int) -> bool:
    """
    pre: -1 <= q < len(PATTERNS) and (FIX_Q is None or q == FIX_Q) and 0 <= p < len(PATTERNS) and 0 <= n <= 4 and n <= L and _ok_letters([w0, w1, w2, w3]) and all(x == 0 for x in [w0, w1, w2, w3][n:])
    post: _
    """
    w = [_pick(x, 4) for x in [w0, w1, w2, w3]][:_pick(n, 5)]
    bad, k = _after(_pick(q + 1, len(PATTERNS) + 1) - 1, _pick(p, len(PATTERNS)), w)
    return fin(bad == [], k >= 1 and q >= 0)


def real_h_find_all_after(q, p, n, w0, w1, w2, w3):
    w = [w0, w1, w2, w3][:n]
    bad, _k = _after.__wrapped__(q, p, w)
    t = PATTERNS[p]
    return {"reproduced": bool(bad), "sig": "find_all:after-another-search:" + "+".join(sorted(set(bad))), "detail": f"pattern {pat.show(t)} on {''.join('abcd'[x] for x in w)!r} after a search for {pat.show(PATTERNS[q]) if q >= 0 else None} on 'abcab': violates {bad}"}
