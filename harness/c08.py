"""C08 — the report document is valid JSON and round-trips. Real code: ReportWriter.to_json (pretty and compact), ReportReader.from_json / get_report_version,
Report, Codebase (rebuilt by the reader). One string field at a time carries a string assembled from solver-chosen characters of a pool of JSON-hostile characters
(str/regex operations of the json module on symbolic strings are not decidable with CrossHair, so the characters are selected by symbolic index and the document work runs concretely).
param: {"shape": {...}, "field": name}. S-time/uuid: uuid4()/datetime.now() in Report.__init__ replaced by constants."""
import json

import codelimit.common.report.Report as rmod
from codelimit.common.Codebase import Codebase
from codelimit.common.GithubRepository import GithubRepository
from codelimit.common.Location import Location
from codelimit.common.Measurement import Measurement
from codelimit.common.SourceFileEntry import SourceFileEntry
from codelimit.common.report.Report import Report
from codelimit.common.report.ReportReader import ReportReader
from codelimit.common.report.ReportWriter import ReportWriter
from vlib.hx import fin, param, untraced

POOL = ['"', "\\", "\n", "\x00", "\x1f", "\x7f", "a", " ", "é", " ", "😀", "{", "}", ":", ",", "'", "\ud800", "\t", "/"]
FIELD = param("field", "root")
SHAPE = param("shape", {"files": 2, "ms": 2, "repo": True, "version": True})
MAXN = param("maxn", 2)
INTS = [1, 4321, 7654321, 0]


class _U:
    @staticmethod
    def uuid4():
        return "00000000-0000-4000-8000-000000000000"


class _D:
    @staticmethod
    def now(tz=None):
        class _T:
            def isoformat(self, timespec="seconds"):
                return "2026-01-01T00:00:00+00:00"
        return _T()


rmod.uuid4 = _U.uuid4
rmod.datetime = _D


def build(field, s):
    """A report of the given shape whose `field` carries s."""
    g = lambda name, default: s if field == name else default
    root = g("root", "/home/user/project")
    cb = Codebase(root)
    nf, nm = SHAPE["files"], SHAPE["ms"]
    paths = ["src/a.py", "src/lib/b.js"][:nf]
    if field == "path" and nf:
        paths[0] = "src/" + s.replace("/", "") + ".py"
    if field == "folder" and nf:
        paths[0] = s.replace("/", "") + "x/a.py"
    langs = ["Python", "JavaScript"]
    for i, p in enumerate(paths):
        ms = [Measurement(g("unit_name", "fn") if (i == 0 and j == 0) else f"f{i}{j}", Location(INTS[j] + 1, 3), Location(INTS[j + 1] + 9, 2), [12, 45, 70][(i + j) % 3]) for j in range(nm)]
        cb.add_file(SourceFileEntry(p, g("checksum", "0123abcd") if (i == 0 or SHAPE.get("same_checksum")) else "ffff", g("language", langs[i]) if i == 0 else langs[i], sum(m.value for m in ms), ms))
    cb.aggregate()
    repo = GithubRepository(g("owner", "own"), g("name", "nam"), g("branch", "main")) if SHAPE["repo"] else None
    r = Report(cb, repo)
    r.version = g("version", "1.2.3") if SHAPE["version"] else None
    r.uuid = g("uuid", "u-u-i-d")
    r.timestamp = g("timestamp", "2026-01-01T00:00:00+00:00")
    return r


def expected_value(r):
    """The document value the statement prescribes for report r (independent of the writer)."""
    cb = r.codebase
    d = {"version": r.version, "uuid": r.uuid, "timestamp": r.timestamp, "root": cb.root}
    if r.repository:
        d["repository"] = {"owner": r.repository.owner, "name": r.repository.name, "branch": r.repository.branch}
    d["codebase"] = {
        "totals": {k: {"files": t.files, "lines_of_code": t.loc, "functions": t.functions, "hard_to_maintain": t.hard_to_maintain, "unmaintainable": t.unmaintainable} for k, t in cb.totals.items()},
        "tree": {k: {"entries": [e.name for e in f.entries], "profile": list(f.profile)} for k, f in cb.tree.items()},
        "files": {k: {"checksum": e.checksum(), "language": e.language, "loc": e.loc, "profile": list(e.profile()),
                      "measurements": [{"unit_name": m.unit_name, "start": {"line": m.start.line, "column": m.start.column}, "end": {"line": m.end.line, "column": m.end.column}, "value": m.value} for m in e.measurements()]}
                  for k, e in cb.files.items()},
    }
    return d


@untraced
def roundtrip(field, s, cfgrepo=False):
    """-> list of violated clause names (empty = holds). Everything here is concrete.
    cfgrepo: the process-wide Configuration.repository is SET while the documents are read back (it must not leak into a report read from a document)."""
    from codelimit.common.Configuration import Configuration
    saved_cfg = Configuration.repository
    try:
        return _roundtrip(field, s, cfgrepo, Configuration)
    finally:
        Configuration.repository = saved_cfg


def _roundtrip(field, s, cfgrepo, Configuration):
    Configuration.repository = None
    bad = []
    r = build(field, s)
    exp = expected_value(r)
    docs = {}
    for pretty in (True, False):
        doc = ReportWriter(r, pretty).to_json()
        docs[pretty] = doc
        try:
            v = json.loads(doc)
        except ValueError:
            bad.append("invalid-json-" + ("pretty" if pretty else "compact"))
            continue
        if v != exp:
            bad.append("wrong-value-" + ("pretty" if pretty else "compact"))
        elif list(v["codebase"]["files"].keys()) != list(exp["codebase"]["files"].keys()):
            bad.append("file-order")
    if bad:
        return bad
    if cfgrepo:
        Configuration.repository = GithubRepository("cfg-owner", "cfg-name", "cfg-branch")
    for pretty in (True, False):
        try:
            r2 = ReportReader.from_json(docs[pretty])
            ver = ReportReader.get_report_version(docs[pretty])
        except Exception as e:
            bad.append("reader-raises-" + type(e).__name__)
            continue
        if ver != r.version or r2.version != r.version:
            bad.append("version-not-restored")
        e2 = expected_value(r2)
        e2["timestamp"] = exp["timestamp"]
        if e2 != exp:
            bad.append("reread-differs")
        r2.timestamp = r.timestamp
        if ReportWriter(r2, pretty).to_json() != docs[pretty]:
            bad.append("rewrite-differs")
    return bad


def _pick(i):
    for k in range(len(POOL)):
        if i == k:
            return POOL[k]
    return POOL[0]


def h_field(n: int, c0: int, c1: int, c2: int, cfgrepo: bool) -> bool:
    """
    pre: 0 <= n <= MAXN and all(0 <= c < len(POOL) for c in [c0, c1, c2])
    post: _
    """
    s = ""
    for k, c in enumerate([c0, c1, c2]):
        if k < n:
            s = s + _pick(c)
    return fin(_with_cfg(FIELD, s, True if cfgrepo else False) == [], n == 2)


def _with_cfg(field, s, cfgrepo):
    return roundtrip(field, s, cfgrepo)


def real_h_field(n, c0, c1, c2, cfgrepo):
    s = "".join(POOL[c] for c in [c0, c1, c2][:n])
    bad = roundtrip.__wrapped__(FIELD, s, cfgrepo)
    return {"reproduced": bool(bad), "sig": f"report:{'+'.join(sorted(set(bad)))}", "detail": f"field {FIELD} = {s!r}: {bad}"}
