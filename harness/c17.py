"""C17 — the suppression marker. Part 1: filter_nocl_comment_tokens on one comment token with symbolic text (real code:
source_utils.filter_nocl_comment_tokens, Token.is_comment). Part 2 (skeleton differential) lives in harness/skel.py."""
from pygments.token import Token as PT

from codelimit.common.Location import Location
from codelimit.common.Token import Token
from codelimit.common.source_utils import filter_nocl_comment_tokens
from vlib.hx import fin, param

LEADERS = ["#", "//", "/*"]
CKINDS = [PT.Comment.Single, PT.Comment.Multiline, PT.Comment, PT.Comment.Hashbang]
LI = param("leader", 0)


def _marker(u0, u1, u2, u3):
    return ("N" if u0 else "n") + ("O" if u1 else "o") + ("C" if u2 else "c") + ("L" if u3 else "l")


TAILS = ["", " ", "x", ": generated code", "-", "\n", " */", "nocl"]
ALPHA = param("alpha", " noclNx")
NB = param("nb", 4)
B0 = param("b0", None)


GAPS = ["", " ", "  ", "\t", " " * 12, " " * 40, " \t  \t"]     # blanks between the comment leader and the marker: any amount


def _pick(pool, i):
    """Element of a concrete pool chosen by a symbolic index (explicit branching keeps the strings concrete: str.lower()/strip() on symbolic strings make CrossHair enumerate models)."""
    for k in range(len(pool)):
        if i == k:
            return pool[k]
    return pool[0]


def h_marked(ns: int, u0: bool, u1: bool, u2: bool, u3: bool, ti: int, ck: int, line: int) -> bool:
    """
    pre: 0 <= ns < len(GAPS) and 0 <= ti < len(TAILS) and 0 <= ck < len(CKINDS) and line >= 1
    post: _
    """
    text = LEADERS[LI] + _pick(GAPS, ns) + _marker(u0, u1, u2, u3) + _pick(TAILS, ti)
    tok = Token(Location(line, 7), _pick(CKINDS, ck), text)
    other = Token(Location(line, 1), PT.Name, "nocl")          # a non-comment token never qualifies
    got = filter_nocl_comment_tokens([other, tok])
    return fin(len(got) == 1 and got[0] is tok and got[0].location.line == line, ns == 2 and u1 and not u0)


def h_unmarked(ns: int, nb: int, b0: int, b1: int, b2: int, b3: int, b4: int, ck: int) -> bool:
    """
    pre: 0 <= ns <= 1 and 1 <= nb <= NB and all(0 <= b < len(ALPHA) for b in [b0, b1, b2, b3, b4]) and ck == 0 and (B0 is None or b0 == B0)
    post: _
    """
    body = "".join(_pick(ALPHA, b) for b in [b0, b1, b2, b3, b4][:nb])
    # the statement: qualifies iff, after the leader and blanks, the text begins case-insensitively with 'nocl'
    rest = body.lstrip(" \t")[:4]
    is_marker = len(rest) == 4 and rest[0] in "nN" and rest[1] in "oO" and rest[2] in "cC" and rest[3] in "lL"
    text = LEADERS[LI] + _pick(["", " ", "  "], ns) + body
    tok = Token(Location(3, 7), _pick(CKINDS, ck), text)
    got = filter_nocl_comment_tokens([tok])
    return fin((len(got) == 1) == is_marker, (not is_marker) and "ocl" in body)
