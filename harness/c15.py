"""C15 — built-in header / follow-up patterns are unambiguous in every reachable configuration.

param: {"lang": name}. For every captured (header, follow-up) expression of the language the DFA is built by the real code.
A configuration is (DFA state, depth class per Balanced predicate object); depth classes: neg (<0), 0, 1, ge2.
  h_closed      : one real Pattern.consume step from any KNOWN configuration on any token stays inside KNOWN  (drives the fixpoint)
  h_unambiguous : one real Pattern.consume step from any KNOWN configuration on any token never raises 'Multiple transitions found!'
The token is symbolic: kind index into the Pygments type families, value an unbounded string; depths are unbounded ints inside their class.
"""
import json
from copy import deepcopy

from pygments.token import STANDARD_TYPES, Token as PT

from codelimit.common.Location import Location
from codelimit.common.Token import Token
from codelimit.common.gsm.Pattern import Pattern
from vlib import capture
from vlib.hx import fin, param, untraced

LANG = param("lang", "C")
TYPES = sorted([t for t in STANDARD_TYPES if len(t) == 1], key=str) + [PT.Literal.String, PT.Literal.Number, PT.Name.Function, PT.Keyword.Declaration]

# ---- all automata of the language: list of dicts
AUTOMATA = []
for _pi, (_expr, _follow) in enumerate(capture.capture(LANG)):
    for _part, _e in (("header", _expr), ("follow", _follow)):
        if _e is None:
            continue
        _dfa, _states, _index = capture.build_dfa(_e)
        _preds = capture.predicates_of(_states)
        _bal = []
        for _p in _preds:
            for _b in capture.find_balanced(_p):
                if not any(_b is x for x in _bal):
                    _bal.append(_b)
        AUTOMATA.append({"pair": _pi, "part": _part, "dfa": _dfa, "states": _states, "index": _index, "preds": _preds, "balanced": _bal})

A = AUTOMATA[param("automaton", 0)] if AUTOMATA else None
NBAL = len(A["balanced"]) if A else 0
CLASSES = ["neg", "0", "1", "ge2"]
# KNOWN configurations: list of (state index, (class per balanced...)); PRED[i] = (predecessor config index, (kind index, value)) or None
KNOWN = [tuple(x) if not isinstance(x, tuple) else x for x in (param("known") or [])] or [(0, tuple("0" for _ in range(NBAL)))]
KNOWN = [(s, tuple(c)) for s, c in KNOWN]
PRED = [None] * len(KNOWN)


def in_class(d, c):
    if c == "neg":
        return d < 0
    if c == "0":
        return d == 0
    if c == "1":
        return d == 1
    return d >= 2


def class_of(d):
    if d < 0:
        return "neg"
    if d == 0:
        return "0"
    if d == 1:
        return "1"
    return "ge2"


def _setup(ci, depths):
    """A real Pattern positioned in configuration KNOWN[ci] with the given concrete-class / symbolic-value depths."""
    s, _ = KNOWN[ci]
    p = Pattern(0, A["dfa"])
    p.state = A["states"][s]
    copies = []
    for pred in A["preds"]:
        cp = untraced(deepcopy)(pred)
        p.predicate_map[id(pred)] = cp
        copies.append(cp)
    # set depth on the copies of the Balanced objects (same traversal order as find_balanced on the originals)
    bal_copies = []
    for cp in copies:
        for b in capture.find_balanced(cp):
            bal_copies.append(b)
    for b, d in zip(bal_copies, depths):
        b.depth = d
    return p, bal_copies


EXCLUDED = []   # (ci, k, v) triples of ambiguities already recorded


def _pre_u(ci, d0, d1, k, v):
    return _pre(ci, d0, d1, k) and not any(ci == a and k == b and v == c for a, b, c in EXCLUDED)


def _pre(ci, d0, d1, k):
    if not (0 <= ci < len(KNOWN) and 0 <= k < len(TYPES)):
        return False
    cls = KNOWN[ci][1]
    ds = [d0, d1]
    for i in range(2):
        if i < NBAL:
            if not in_class(ds[i], cls[i]):
                return False
        elif ds[i] != 0:
            return False
    return True


def _step(ci, d0, d1, k, v):
    p, bals = _setup(ci, [d0, d1][:NBAL])
    tok = Token(Location(1, 1), TYPES[k], v)
    nxt = p.consume(tok)       # the real stepping code; raises ValueError on ambiguity
    if nxt is None:
        return None
    return (A["index"][id(nxt)], tuple(class_of(b.depth) for b in bals))


def h_closed(ci: int, d0: int, d1: int, k: int, v: str) -> bool:
    """
    pre: _pre(ci, d0, d1, k)
    post: _
    """
    try:
        succ = _step(ci, d0, d1, k, v)
    except ValueError:
        return fin(True, False)
    return fin(succ is None or succ in KNOWN, succ is not None)


def h_unambiguous(ci: int, d0: int, d1: int, k: int, v: str) -> bool:
    """
    pre: _pre_u(ci, d0, d1, k, v)
    post: _
    """
    try:
        succ = _step(ci, d0, d1, k, v)
    except ValueError as e:
        if "Multiple transitions" in str(e):
            return False
        raise
    return fin(True, succ is not None)


# --------------------------------------------------------------------------- fallback: token text from a finite pool
# When the predicates do something with the token text that the solver cannot decide on an unbounded string (set membership, regular expressions, lower()),
# the same two conditions are decided with the text drawn from a pool: every literal that any predicate of the language mentions plus generic members.
def _literals(pred, acc):
    for k, v in sorted(getattr(pred, "__dict__", {}).items()):
        if isinstance(v, str) and v not in acc:
            acc.append(v)
        elif hasattr(v, "accept"):
            _literals(v, acc)
        elif isinstance(v, (list, tuple)):
            for x in v:
                if hasattr(x, "accept"):
                    _literals(x, acc)
    return acc


POOL = []
for _a in AUTOMATA:
    for _p in _a["preds"]:
        _literals(_p, POOL)
POOL = sorted(POOL) + ["x", "1", "", "X"]


def _pool(vi):
    for i in range(len(POOL)):
        if vi == i:
            return POOL[i]
    return POOL[0]


def h_closed_pool(ci: int, d0: int, d1: int, k: int, vi: int) -> bool:
    """
    pre: _pre(ci, d0, d1, k) and 0 <= vi < len(POOL)
    post: _
    """
    try:
        succ = _step(ci, d0, d1, k, _pool(vi))
    except ValueError:
        return fin(True, False)
    return fin(succ is None or succ in KNOWN, succ is not None)


def h_unambiguous_pool(ci: int, d0: int, d1: int, k: int, vi: int) -> bool:
    """
    pre: _pre_u(ci, d0, d1, k, _pool(vi)) and 0 <= vi < len(POOL)
    post: _
    """
    try:
        succ = _step(ci, d0, d1, k, _pool(vi))
    except ValueError as e:
        if "Multiple transitions" in str(e):
            return False
        raise
    return fin(True, succ is not None)


# --------------------------------------------------------------------------- fixpoint driver (called through `xh_worker call`)
def _analyze(fn, cond_timeout, path_timeout):
    import collections
    import sys
    from crosshair.core_and_libs import analyze_function, run_checkables
    from crosshair.options import AnalysisOptionSet
    from vlib.xh_worker import parse_call
    stats = collections.Counter()
    opts = AnalysisOptionSet(per_condition_timeout=cond_timeout, per_path_timeout=path_timeout, report_all=True, max_uninteresting_iterations=sys.maxsize, stats=stats)
    msgs = run_checkables(analyze_function(fn, opts))
    for m in msgs:
        if m.state.value in ("post_fail", "exec_err", "post_err"):
            return "refuted", parse_call(m.message, fn), m.message, stats.get("num_paths", 0)
    if msgs and all(m.state.value == "confirmed" for m in msgs):
        return "confirmed", None, "", stats.get("num_paths", 0)
    return "inconclusive", None, "; ".join(m.state.value + ":" + m.message for m in msgs), stats.get("num_paths", 0)


def _pname(pred):
    n = type(pred).__name__
    inner = []
    for k, v in sorted(getattr(pred, "__dict__", {}).items()):
        if k in ("satisfied", "depth"):
            continue
        inner.append(_pname(v) if hasattr(v, "accept") else str(v))
    return n + ("(" + ",".join(inner) + ")" if inner else "")


def chain(ci):
    """Token chain (kind index, value) leading from the start configuration to KNOWN[ci]."""
    out = []
    while PRED[ci] is not None:
        pc, tok = PRED[ci]
        out.append(tok)
        ci = pc
    return out[::-1]


def fixpoint(cond_timeout=120.0, path_timeout=20.0, max_iter=200, pool=False):
    """Grow KNOWN with h_closed counterexamples until CrossHair confirms closure; then decide h_unambiguous over KNOWN.
    pool=True: the token text ranges over POOL instead of all strings (fallback when the unbounded-text conditions are undecided)."""
    import time
    t0 = time.time()
    paths = 0
    iters = 0
    f_closed, f_unamb = (h_closed_pool, h_unambiguous_pool) if pool else (h_closed, h_unambiguous)

    def _fix(args):
        if pool and isinstance(args, dict) and "vi" in args:
            args = dict(args)
            args["v"] = POOL[args.pop("vi")]
        return args
    while True:
        iters += 1
        st, args, msg, n = _analyze(f_closed, cond_timeout, path_timeout)
        args = _fix(args)
        paths += n
        if st == "refuted":
            if not isinstance(args, dict) or "__raw__" in args:
                return {"status": "error", "detail": "unparseable counterexample " + msg}
            succ = _step(args["ci"], args["d0"], args["d1"], args["k"], args["v"])
            if succ is None or succ in KNOWN:
                return {"status": "error", "detail": f"closure counterexample does not reproduce: {args} -> {succ}"}
            KNOWN.append(succ)
            PRED.append((args["ci"], (args["k"], args["v"])))
            if iters > max_iter:
                return {"status": "error", "detail": "fixpoint did not converge"}
            continue
        if st != "confirmed":
            return {"status": "inconclusive", "detail": "closure: " + msg, "known": KNOWN, "paths": paths, "wall": time.time() - t0}
        break
    closure_iters = iters
    # ambiguity over the reachable configurations; collect every distinct ambiguous (config, kind) class by excluding found ones
    ambiguous = []
    while True:
        st, args, msg, n = _analyze(f_unamb, cond_timeout, path_timeout)
        args = _fix(args)
        paths += n
        if st == "refuted":
            if not isinstance(args, dict) or "__raw__" in args:
                return {"status": "error", "detail": "unparseable counterexample " + msg}
            toks = chain(args["ci"]) + [(args["k"], args["v"])]
            p, bals = _setup(args["ci"], [args["d0"], args["d1"]][:NBAL])
            tok = Token(Location(1, 1), TYPES[args["k"]], args["v"])
            accepting = []
            for pred, _tgt in p.state.transition:
                if p.predicate_map[id(pred)].accept(tok):
                    accepting.append(_pname(pred))
            ambiguous.append({"config": KNOWN[args["ci"]], "depths": [args["d0"], args["d1"]][:NBAL], "token": [str(TYPES[args["k"]]), args["v"]],
                              "accepting": sorted(accepting), "chain": [[str(TYPES[k]), v] for k, v in toks]})
            EXCLUDED.append((args["ci"], args["k"], args["v"]))
            if len(ambiguous) >= 8:
                break
            continue
        if st != "confirmed":
            return {"status": "inconclusive", "detail": "ambiguity: " + msg, "known": KNOWN, "paths": paths, "wall": time.time() - t0, "ambiguous": ambiguous}
        break
    return {"status": "ok", "text": ("pool of %d texts: %s" % (len(POOL), POOL)) if pool else "unbounded", "known": KNOWN, "closure_iterations": closure_iters, "ambiguous": ambiguous, "paths": paths, "wall": time.time() - t0,
            "states": len(A["states"]), "transitions": sum(len(s.transition) for s in A["states"]), "balanced": NBAL, "pair": A["pair"], "part": A["part"],
            "accepting_chain": [[str(TYPES[k]), v] for k, v in _accepting_chain()]}


def _accepting_chain():
    """A token chain from the start configuration to some accepting configuration (used to prefix follow-up replays)."""
    # prefer a configuration in which every Balanced predicate is back at depth 0 (the header really ended there)
    for want_zero in (True, False):
        for i, (s, cls) in enumerate(KNOWN):
            if A["dfa"].is_accepting(A["states"][s]) and (not want_zero or all(c == "0" for c in cls)) and PRED[i] is not None:
                return chain(i)
    return []


def n_automata():
    return [{"pair": a["pair"], "part": a["part"], "states": len(a["states"])} for a in AUTOMATA]
